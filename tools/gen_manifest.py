#!/usr/bin/env python3
"""Regenerates /verif/MANIFEST.json from the table below (kept in one place so it is always valid)."""
import json, os, sys
HERE = os.path.dirname(os.path.dirname(os.path.abspath(__file__)))

# id -> (claimed?, technique, level text, level note)
T = {}
def claim(i, technique, text, note, ref):
    T[i] = dict(claimed=True, technique=technique, text=text, note=note, ref=ref)
def pending(i, reason):
    T[i] = dict(claimed=False, reason=reason)

exec(open(os.path.join(HERE, "tools", "manifest_table.py")).read())

checks, na = [], []
for i in sorted(T):
    e = T[i]
    if e["claimed"]:
        checks.append({
            "property_id": i,
            "quick_cmd": f"./bin/check {i} --tier quick",
            "thorough_cmd": f"./bin/check {i} --tier thorough",
            "evidence_file": f"/verif/evidence/{i}.json",
            "replay_cmd_template": f"./bin/check {i} --replay {{path}}",
            "engine": "verifsim",
            "level_claimed": {"category": "exploration", "text": e["text"], "design_ref": e["ref"]},
            "level_note": e["note"],
            "technique": e["technique"],
        })
    else:
        na.append({"property_id": i, "reason": e["reason"]})
m = {
    "version": 1,
    "setup_cmd": "./setup.sh",
    "hooks": {
        "guard": "verifsim (scheduling points are generated into a scratch copy of /repo by bin/verif-inst at check time; nothing is committed to /repo)",
        "enable": "bin/check copies /repo's working tree to /verif/.work/<id>-<tier>-<pid>/repo, runs bin/verif-inst on it (inserts verifsim.Yield/PreLock calls, wraps every multi-case select so that the order in which ready cases are tried is drawn by the simulator - bodies and operands unchanged -, adds package verifsim and limiter/zz_verif_access.go) and builds the harness against that copy with go1.26.8",
        "baseline_off_cmd": "cd /repo && GOFLAGS=-mod=mod go test -vet=off -count=1 -timeout 25m ./...",
        "source_commits": [],
        "add_only": True,
    },
    "engines": [{
        "name": "verifsim",
        "path": "/verif/harness (scheduler sched.go, choice tape tape.go, runner/shrinker run.go, worker worker_test.go), /verif/cmd/verif-inst (AST instrumenter), /verif/cmd/check (driver)",
        "serves_properties": [c["property_id"] for c in checks],
        "kind_free_text": "deterministic simulation: seeded scheduler over AST-inserted scheduling points inside testing/synctest bubbles (virtual clock), seeded fault/operation tapes with tape shrinking and exact replay, reference models and porcupine linearizability as oracles",
    }],
    "checks": checks,
    "not_applicable": na,
    "notes": "All checks: exit 0 = held on everything explored, 1 = VIOLATION line with replay file, 2 = could not decide (build/harness/nondeterminism). VERIF_SEED and VERIF_TIER honoured. Known findings: /verif/known_findings.json.",
}
json.dump(m, open(os.path.join(HERE, "MANIFEST.json"), "w"), indent=1)
print("MANIFEST.json: %d checks, %d not claimed" % (len(checks), len(na)))
