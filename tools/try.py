#!/usr/bin/env python3
"""usage: tools/try.py <seeded-name> <check-id> [<check-id>...]  - run some checks against one stored seeded change"""
import sys, os, shutil
sys.path.insert(0, os.path.dirname(__file__))
import seeded as S
name = sys.argv[1]
S.SCR = "/tmp/verif-try-" + name
tree = S.fresh_tree(name)
rc, out = S.sh(f"git apply {S.VERIF}/seeded/{name}/patch.diff", cwd=tree)
if rc != 0:
    print("patch does not apply", out[-300:]); sys.exit(2)
v = S.verif_copy()
for c in S.run_checks(tree, sys.argv[2:], v):
    print(name, c["property"], "exit", c["exit"], c["violations"][:2], c["tail"][-300:] if c["exit"] == 2 else "")
shutil.rmtree(S.SCR, ignore_errors=True)
