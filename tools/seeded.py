#!/usr/bin/env python3
"""Collects a seeded property-breaking change from a sub-agent's scratch worktree, verifies it
independently in a fresh scratch worktree of /repo (compiles, existing suite passes, demonstration
fails with / passes without the change), runs the named checks against the changed tree and stores
everything under /verif/seeded/<name>/ (patch.diff, demonstration, MUTANT.md, meta.json).

usage: tools/seeded.py collect <worktree> <name> <property> [more-properties...]
       tools/seeded.py recheck [name-substring ...]      # re-run the checks against stored patches
"""
import json, os, shutil, subprocess, sys, time, glob

REPO = "/repo"
VERIF = "/verif"
SCR = os.environ.get("VERIF_SEEDED_SCR", "/tmp/verif-seeded")


def sh(cmd, cwd=None, env=None, timeout=1800):
    p = subprocess.run(cmd, shell=True, cwd=cwd, env=env, stdout=subprocess.PIPE, stderr=subprocess.STDOUT, text=True, timeout=timeout)
    return p.returncode, p.stdout


def goenv():
    return dict(os.environ, GOFLAGS="-mod=mod")


def fresh_tree(name):
    d = os.path.join(SCR, name)
    shutil.rmtree(d, ignore_errors=True)
    os.makedirs(SCR, exist_ok=True)
    shutil.copytree(REPO, d, ignore=shutil.ignore_patterns(".git"))
    sh("git init -q && git add -A && git -c user.email=x@x -c user.name=x commit -qm base", cwd=d)
    return d


def verif_copy():
    v = os.path.join(SCR, "verif")
    shutil.rmtree(v, ignore_errors=True)
    os.makedirs(v)
    for d in ("bin", "harness"):
        shutil.copytree(os.path.join(VERIF, d), os.path.join(v, d))
    shutil.copy(os.path.join(VERIF, "known_findings.json"), v)
    return v


def run_checks(tree, props, vdir, tier="quick", extra_env=None):
    res = []
    for pid in props:
        env = dict(os.environ, VERIF_DIR=vdir, VERIF_REPO=tree)
        if extra_env:
            env.update(extra_env)
        t0 = time.time()
        rc, out = sh(f"{vdir}/bin/check {pid} --tier {tier}", cwd=vdir, env=env)
        viol = [l.strip() for l in out.splitlines() if l.startswith("  violation class=")]
        res.append({"property": pid, "tier": tier, "exit": rc, "seconds": round(time.time() - t0, 1), "violations": [v[:200] for v in viol[:4]],
                    "summary": out.splitlines()[0][:200] if out else "", "tail": out[-500:] if rc not in (0, 1) else ""})
    return res


def collect(wt, name, props):
    dst = os.path.join(VERIF, "seeded", name)
    os.makedirs(dst, exist_ok=True)
    # new (untracked) non-test source files belong to the change
    rc, unt = sh("git ls-files --others --exclude-standard", cwd=wt)
    for f in unt.split():
        if f.endswith(".go") and not f.endswith("_test.go"):
            sh(f"git add -N -- {f}", cwd=wt)
    rc, diff = sh("git diff", cwd=wt)
    if not diff.strip():
        print("no diff in", wt)
        return
    open(os.path.join(dst, "patch.diff"), "w").write(diff)
    rc, untracked = sh("git ls-files --others --exclude-standard", cwd=wt)
    demos = []
    for f in untracked.split():
        if f.endswith("_test.go"):
            os.makedirs(os.path.join(dst, "demo", os.path.dirname(f)), exist_ok=True)
            shutil.copy(os.path.join(wt, f), os.path.join(dst, "demo", f))
            demos.append(f)
        elif f == "MUTANT.md":
            shutil.copy(os.path.join(wt, f), os.path.join(dst, "MUTANT.md"))
    meta = {"name": name, "breaks_property": props[0], "checked_properties": props, "demonstration_files": demos,
            "source": "independent sub-agent given only the property text and a private worktree", "verified": {}}
    verify(name, meta)
    json.dump(meta, open(os.path.join(dst, "meta.json"), "w"), indent=1)
    print(json.dumps({k: meta[k] for k in ("name", "verified")}, indent=1))
    for c in meta.get("checks", []):
        print("  check", c["property"], "exit", c["exit"], c["violations"][:1])


def verify(name, meta):
    dst = os.path.join(VERIF, "seeded", name)
    tree = fresh_tree(name)
    v = meta["verified"]
    rc, out = sh(f"git apply {dst}/patch.diff", cwd=tree)
    v["patch_applies"] = rc == 0
    if rc != 0:
        v["apply_error"] = out[-400:]
        return
    rc, out = sh("go build ./core/... ./limit/... ./limiter/... ./strategy/... ./measurements/... ./metric_registry/... ./grpc/... ./patterns/...", cwd=tree, env=goenv())
    v["compiles"] = rc == 0
    fails = 0
    for i in range(2):
        rc, out = sh("go test -vet=off -count=1 ./... 2>&1 | grep -E '^(FAIL|--- FAIL)' | head -5", cwd=tree, env=goenv())
        if out.strip():
            fails += 1
            v["suite_failure"] = out.strip()[:300]
    v["existing_suite_passes_2_runs"] = fails == 0
    # demonstration
    pk = set()
    for f in meta["demonstration_files"]:
        os.makedirs(os.path.join(tree, os.path.dirname(f)), exist_ok=True)
        shutil.copy(os.path.join(dst, "demo", f), os.path.join(tree, f))
        pk.add("./" + os.path.dirname(f) + "/")
    pkgs = " ".join(sorted(pk))
    if pkgs:
        rc1, out1 = sh(f"go test -vet=off -count=1 -run 'Demo|demo|ZZ' {pkgs} 2>&1 | tail -5", cwd=tree, env=goenv())
        v["demo_fails_with_change"] = ("FAIL" in out1)
        sh(f"git apply -R {dst}/patch.diff", cwd=tree)
        rc2, out2 = sh(f"go test -vet=off -count=1 -run 'Demo|demo|ZZ' {pkgs} 2>&1 | tail -5", cwd=tree, env=goenv())
        v["demo_passes_without_change"] = ("FAIL" not in out2) and ("ok" in out2)
        sh(f"git apply {dst}/patch.diff", cwd=tree)
        for f in meta["demonstration_files"]:
            os.remove(os.path.join(tree, f))
    vdir = verif_copy()
    meta["checks"] = run_checks(tree, meta["checked_properties"], vdir)
    meta["caught_by_quick"] = [c["property"] for c in meta["checks"] if c["exit"] == 1]
    meta["what_was_run"] = "tools/seeded.py: fresh copy of /repo HEAD + patch.diff; go build; existing suite x2; demonstration with and without the change; ./bin/check <property> --tier quick with VERIF_REPO pointing at the changed copy"
    shutil.rmtree(tree, ignore_errors=True)


SHARD = tuple(int(x) for x in os.environ["VERIF_SHARD"].split("/")) if os.environ.get("VERIF_SHARD") else None  # "i/n": only names with sum(bytes) % n == i


def recheck(sel, tier="quick", allprops=False):
    vdir = verif_copy()
    for d in sorted(glob.glob(os.path.join(VERIF, "seeded", "*", "meta.json"))):
        meta = json.load(open(d))
        name = meta["name"]
        if sel and not any(s in name for s in sel):
            continue
        if SHARD and (sum(map(ord, name)) % SHARD[1]) != SHARD[0]:
            continue
        dst = os.path.dirname(d)
        tree = fresh_tree(name)
        rc, out = sh(f"git apply {dst}/patch.diff", cwd=tree)
        if rc != 0:
            print(name, "PATCH NO LONGER APPLIES")
            continue
        props = meta["checked_properties"]
        if allprops:
            props = ["C%02d" % i for i in range(1, 21)]
        checks = run_checks(tree, props, vdir, tier)
        key = "checks" if tier == "quick" and not allprops else f"checks_{tier}" + ("_all" if allprops else "")
        meta[key] = checks
        if tier == "quick" and not allprops:
            meta["caught_by_quick"] = [c["property"] for c in checks if c["exit"] == 1]
        else:
            meta[f"caught_by_{tier}" + ("_all" if allprops else "")] = [c["property"] for c in checks if c["exit"] == 1]
        json.dump(meta, open(d, "w"), indent=1)
        print(name, "caught by", [c["property"] for c in checks if c["exit"] == 1], "errors", [(c["property"], c["exit"]) for c in checks if c["exit"] not in (0, 1)])
        sys.stdout.flush()
        shutil.rmtree(tree, ignore_errors=True)


if __name__ == "__main__":
    if sys.argv[1] == "collect":
        collect(sys.argv[2], sys.argv[3], sys.argv[4:])
    elif sys.argv[1] == "recheck":
        args = sys.argv[2:]
        tier = "quick"
        allp = False
        if "--thorough" in args:
            tier = "thorough"
            args.remove("--thorough")
        if "--all" in args:
            allp = True
            args.remove("--all")
        recheck(args, tier, allp)
    shutil.rmtree(SCR, ignore_errors=True)
