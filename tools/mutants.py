#!/usr/bin/env python3
"""Sensitivity self-test: applies a catalogue of property-breaking edits (one at a time) to a
scratch copy of /repo (never to /repo itself), runs the named check(s) in quick tier against the
copy and records whether the violation is reported. Usage: tools/mutants.py [id-substring ...]
Results: /verif/seeded/catalogue_results.json"""
import json, os, shutil, subprocess, sys, time

REPO = "/repo"
WORK = "/tmp/verif-mutants"
VERIF = "/verif"

# (name, property ids expected to catch it, file, old, new)
M = [
 ("c01-acquire-no-lock", ["C01"], "limiter/default.go", "func (l *DefaultLimiter) Acquire(ctx context.Context) (core.Listener, bool) {\n\tl.mu.Lock()\n\tdefer l.mu.Unlock()\n", "func (l *DefaultLimiter) Acquire(ctx context.Context) (core.Listener, bool) {\n"),
 ("c01-precise-no-lock", ["C17", "C01"], "strategy/precise.go", "\ts.mu.Lock()\n\tdefer s.mu.Unlock()\n\tif s.inFlight >= s.limit {", "\tif s.inFlight >= s.limit {"),
 ("c01-setlimit-no-floor", ["C01", "C05"], "strategy/simple.go", "func (s *SimpleStrategy) SetLimit(limit int) {\n\tif limit < 1 {\n\t\tlimit = 1\n\t}\n", "func (s *SimpleStrategy) SetLimit(limit int) {\n"),
 ("c01-gate-off-by-one", ["C01"], "strategy/precise.go", "if s.inFlight >= s.limit {", "if s.inFlight > s.limit {"),
 ("c02-ignore-no-release", ["C02", "C01"], "limiter/default.go", "func (l *DefaultListener) OnIgnore() {\n\tatomic.AddInt64(l.inFlight, -1)\n\tl.token.Release()\n}", "func (l *DefaultListener) OnIgnore() {\n\tatomic.AddInt64(l.inFlight, -1)\n}"),
 ("c02-delegate-ondropped-not-forwarded", ["C02"], "limiter/delegate_listener.go", "\tl.delegateListener.OnDropped()\n", "\tif false {\n\t\tl.delegateListener.OnDropped()\n\t}\n"),
 ("c02-gauge-not-decremented-on-drop", ["C02"], "limiter/default.go", "func (l *DefaultListener) OnDropped() {\n\tatomic.AddInt64(l.inFlight, -1)\n", "func (l *DefaultListener) OnDropped() {\n"),
 ("c02-giveup-strands-listener", ["C02", "C12", "C10"], "limiter/queue_blocking.go", "\tcase listener, ok := <-eventReleaseChan:\n\t\tif ok {\n\t\t\treturn listener\n\t\t}\n\tdefault:\n", "\tdefault:\n"),
 ("c02-bin-not-released", ["C02", "C03"], "strategy/lookup_partition.go", "\t\ts.busy--\n\t\tpartition.Release()\n", "\t\ts.busy--\n"),
 ("c03-and-to-or", ["C03"], "strategy/predicate_partition.go", "if s.busy >= s.limit && p.IsLimitExceeded() {", "if s.busy >= s.limit || p.IsLimitExceeded() {"),
 ("c03-share-floor", ["C03", "C05"], "strategy/lookup_partition.go", "math.Max(1, math.Ceil(float64(totalLimit)*p.percent))", "math.Max(1, math.Floor(float64(totalLimit)*p.percent))"),
 ("c03-setlimit-skips-partitions", ["C03", "C05"], "strategy/predicate_partition.go", "\t\tfor _, p := range s.partitions {\n\t\t\tp.UpdateLimit(int32(limit))\n\t\t}\n", "\t\tfor _, p := range s.partitions[:0] {\n\t\t\tp.UpdateLimit(int32(limit))\n\t\t}\n"),
 ("c03-unknown-refused", ["C03"], "strategy/lookup_partition.go", "\tif !ok {\n\t\tpartition = s.unknownPartition\n\t}\n\tif s.busy >= s.limit && partition.IsLimitExceeded() {", "\tif !ok {\n\t\treturn core.NewNotAcquiredStrategyToken(int(s.busy)), false\n\t}\n\tif s.busy >= s.limit && partition.IsLimitExceeded() {"),
 ("c04-aimd-no-floor", ["C04", "C06"], "limit/aimd.go", "l.limit = int(math.Max(1, math.Min(float64(l.limit-1), float64(l.limit)*l.backOffRatio)))", "l.limit = int(math.Min(float64(l.limit-1), float64(l.limit)*l.backOffRatio))"),
 ("c04-vegas-no-max-clamp", ["C04"], "limit/vegas.go", "newLimit = math.Max(1, math.Min(float64(l.maxLimit), newLimit))", "newLimit = math.Max(1, newLimit)"),
 ("c04-gradient-nan-again", ["C04"], "limit/gradient.go", "\tgradient := 1.0\n\tif rtt > 0 {\n\t\tgradient = math.Max(0.5, math.Min(1.0, l.rttTolerance*float64(rttNoLoad)/float64(rtt)))\n\t}", "\tgradient := math.Max(0.5, math.Min(1.0, l.rttTolerance*float64(rttNoLoad)/float64(rtt)))"),
 ("c04-log10-guard", ["C04"], "limit/functions/log10_root.go", "\t\tif int(estimatedLimit) < len(log10RootLookup) {\n\t\t\treturn baseline + float64(log10RootLookup[int(estimatedLimit)])", "\t\tif int(estimatedLimit) <= len(log10RootLookup) {\n\t\t\treturn baseline + float64(log10RootLookup[int(estimatedLimit)])"),
 ("c05-setlimit-skipped-on-decrease", ["C05"], "limiter/default.go", "\t\t\t\tl.limiter.strategy.SetLimit(l.limiter.limit.EstimatedLimit())", "\t\t\t\tif est := l.limiter.limit.EstimatedLimit(); est >= l.limiter.lastEst {\n\t\t\t\t\tl.limiter.strategy.SetLimit(est)\n\t\t\t\t\tl.limiter.lastEst = est\n\t\t\t\t}"),
 ("c05-ctor-no-setlimit", ["C05"], "limiter/default.go", "\tstrategy.SetLimit(limit.EstimatedLimit())\n", "\n"),
 ("c06-aimd-min-to-max", ["C06"], "limit/aimd.go", "math.Max(1, math.Min(float64(l.limit-1), float64(l.limit)*l.backOffRatio))", "math.Max(1, math.Max(float64(l.limit-1), float64(l.limit)*l.backOffRatio))"),
 ("c06-vegas-drop-increases", ["C06"], "limit/vegas.go", "\tif didDrop {\n\t\tnewLimit = l.decreaseFunc(l.estimatedLimit)\n\t} else if", "\tif didDrop {\n\t\tnewLimit = l.increaseFunc(l.estimatedLimit)\n\t} else if"),
 ("c06-gradient-drop-noop", ["C06"], "limit/gradient.go", "\t\tnewLimit = l.estimatedLimit / 2\n", "\t\tnewLimit = l.estimatedLimit\n"),
 ("c07-vegas-guard-removed", ["C07"], "limit/vegas.go", "\t} else if float64(inFlight)*2 < l.estimatedLimit {\n\t\t// Prevent upward drift if not close to the limit\n\t\treturn\n\t} else {", "\t} else {"),
 ("c07-aimd-gate", ["C07"], "limit/aimd.go", "} else if inFlight >= l.limit {", "} else if inFlight >= l.limit/2 {"),
 ("c07-gradient-no-queue", ["C07"], "limit/gradient.go", "newLimit = l.estimatedLimit*gradient + float64(queueSize)", "newLimit = l.estimatedLimit * gradient"),
 ("c07-gradient2-guard-inverted", ["C07"], "limit/gradient2.go", "if float64(inFlight) < l.estimatedLimit/2 {", "if float64(inFlight) > l.estimatedLimit*4 {"),
 ("c08-vegas-alpha-flip", ["C08"], "limit/vegas.go", "\t\t} else if queueSize < alpha {\n\t\t\t// Increase the limit if queue is still manageable\n\t\t\tnewLimit = l.increaseFunc(l.estimatedLimit)\n\t\t} else if queueSize > beta {\n\t\t\t// Detecting latency so decrease\n\t\t\tnewLimit = l.decreaseFunc(l.estimatedLimit)", "\t\t} else if queueSize < alpha {\n\t\t\t// Increase the limit if queue is still manageable\n\t\t\tnewLimit = l.decreaseFunc(l.estimatedLimit)\n\t\t} else if queueSize > beta {\n\t\t\t// Detecting latency so decrease\n\t\t\tnewLimit = l.increaseFunc(l.estimatedLimit)"),
 ("c08-gradient2-inverted", ["C08", "C07"], "limit/gradient2.go", "gradient = math.Max(0.5, math.Min(1.0, longRTT/shortRTT))", "gradient = math.Max(0.5, math.Min(1.0, shortRTT/longRTT))"),
 ("c09-min-to-last", ["C09", "C18"], "measurements/immutable_sample_window.go", "\tminRTT := s.minRTT\n\tif rtt < s.minRTT {\n\t\tminRTT = rtt\n\t}", "\tminRTT := rtt"),
 ("c09-drop-reset-on-success", ["C09", "C18"], "measurements/immutable_sample_window.go", "\t\tsampleCount: s.sampleCount + 1,\n\t\tdidDrop:     s.didDrop,", "\t\tsampleCount: s.sampleCount + 1,\n\t\tdidDrop:     false,"),
 ("c09-next-update-ge", ["C09"], "limiter/default.go", "\t\tif endTime > l.limiter.nextUpdateTime {", "\t\tif endTime >= l.limiter.nextUpdateTime {"),
 ("c09-ignore-adds-sample", ["C09"], "limiter/default.go", "func (l *DefaultListener) OnIgnore() {\n\tatomic.AddInt64(l.inFlight, -1)\n\tl.token.Release()\n}", "func (l *DefaultListener) OnIgnore() {\n\tatomic.AddInt64(l.inFlight, -1)\n\tl.token.Release()\n\tl.limiter.updateAndGetSample(func(window measurements.ImmutableSampleWindow) measurements.ImmutableSampleWindow {\n\t\treturn *(window.AddSample(-1, time.Now().UnixNano()-l.startTime, int(l.currentMaxInFlight)))\n\t})\n}"),
 ("c09-windowed-closing-flag", ["C09"], "limit/windowed.go", "current.MaxInFlight(), current.DidDrop())", "current.MaxInFlight(), didDrop)"),
 ("c10-no-broadcast-on-ignore", ["C10", "C19"], "limiter/delegate_listener.go", "func (l *DelegateListener) OnIgnore() {\n\tl.delegateListener.OnIgnore()\n\t// unblock\n\tl.unblock()\n}", "func (l *DelegateListener) OnIgnore() {\n\tl.delegateListener.OnIgnore()\n}"),
 ("c10-no-recheck-after-subscribe", ["C10", "C19"], "limiter/blocking.go", "\t\tready := subscribe(l.c)\n\t\tlistener, ok = l.delegate.Acquire(ctx)\n\t\tif ok && listener != nil {\n\t\t\tl.logger.Debugf(\"delegate returned a listener ctx=%v\", ctx)\n\t\t\treturn listener, true\n\t\t}\n", "\t\tready := subscribe(l.c)\n"),
 ("c10-queue-unblock-skipped-on-ignore", ["C10", "C19"], "limiter/queue_blocking.go", "func (l *QueueBlockingListener) OnIgnore() {\n\tl.delegateListener.OnIgnore()\n\tl.unblock()\n}", "func (l *QueueBlockingListener) OnIgnore() {\n\tl.delegateListener.OnIgnore()\n}"),
 ("c10-queue-push-outside-lock", ["C10", "C12"], "limiter/queue_blocking.go", "\tl.mu.Lock()\n\tlistener, ok = l.delegate.Acquire(ctx)\n\tif ok && listener != nil {\n\t\tl.mu.Unlock()\n\t\treturn listener\n\t}\n", "\tl.mu.Lock()\n\tl.mu.Unlock()\n\tlistener, ok = l.delegate.Acquire(ctx)\n\tif ok && listener != nil {\n\t\treturn listener\n\t}\n\tl.mu.Lock()\n"),
 ("c11-back-front-swapped", ["C11"], "limiter/queue_blocking.go", "\tcase OrderingFIFO:\n\t\telement = q.list.Back()\n\tcase OrderingLIFO:\n\t\telement = q.list.Front()", "\tcase OrderingFIFO:\n\t\telement = q.list.Front()\n\tcase OrderingLIFO:\n\t\telement = q.list.Back()"),
 ("c11-default-fifo", ["C11"], "limiter/queue_blocking.go", "\tif c.Ordering == \"\" {\n\t\tc.Ordering = OrderingLIFO\n\t}", "\tif c.Ordering == \"\" {\n\t\tc.Ordering = OrderingFIFO\n\t}"),
 ("c11-pool-wrong-ordering", ["C11"], "patterns/pool/generic_pool.go", "\tcase OrderingLIFO:\n\t\tp = Pool{\n\t\t\tlimiter: limiter.NewQueueBlockingLimiterFromConfig(delegateLimiter, limiter.QueueLimiterConfig{\n\t\t\t\tOrdering:          limiter.OrderingLIFO,", "\tcase OrderingLIFO:\n\t\tp = Pool{\n\t\t\tlimiter: limiter.NewQueueBlockingLimiterFromConfig(delegateLimiter, limiter.QueueLimiterConfig{\n\t\t\t\tOrdering:          limiter.OrderingFIFO,"),
 ("c12-len-check-gt", ["C12"], "limiter/queue_blocking.go", "if l.backlog.len() >= l.maxBacklogSize {", "if l.backlog.len() > l.maxBacklogSize {"),
 ("c12-no-evict-on-cancel", ["C12", "C02"], "limiter/queue_blocking.go", "\tcase <-ctxDone:\n\t\t// The context has been cancelled before `maxBacklogTimeout`\n\t\t// could elapse. Since this context no longer needs a listener\n\t\t// we evict it from the backlog to free up space.\n\t\treturn l.giveUp(evict, eventReleaseChan)", "\tcase <-ctxDone:\n\t\treturn nil"),
 ("c13-timer-double", ["C13"], "limiter/queue_blocking.go", "timer := time.NewTimer(l.maxBacklogTimeout)", "timer := time.NewTimer(l.maxBacklogTimeout * 2)"),
 ("c13-ctx-check-removed", ["C13"], "limiter/blocking.go", "\t\tif err := ctx.Err(); err != nil {\n\t\t\tl.logger.Debugf(\"context cancelled ctx=%v\", ctx)\n\t\t\treturn nil, false\n\t\t}\n\n\t\t// try to acquire a new token and return immediately if successful\n\t\tlistener, ok := l.delegate.Acquire(ctx)", "\t\t// try to acquire a new token and return immediately if successful\n\t\tlistener, ok := l.delegate.Acquire(ctx)"),
 ("c13-deadline-after-again", ["C13"], "limiter/deadline.go", "if !time.Now().UTC().Before(l.deadline) {", "if time.Now().UTC().After(l.deadline) {"),
 ("c13-evict-flag-ignored", ["C13"], "limiter/queue_blocking.go", "\tif l.backlogEvictDoneCtx {\n\t\tctxDone = ctx.Done()\n\t}", "\tctxDone = ctx.Done()"),
 ("c14-switch-arms-swapped", ["C14"], "grpc/grpc_unary.go", "\t\tcase ResponseTypeIgnore:\n\t\t\ttoken.OnIgnore()\n\t\tcase ResponseTypeDropped:\n\t\t\ttoken.OnDropped()\n\t\t}\n\t\treturn resp, err", "\t\tcase ResponseTypeIgnore:\n\t\t\ttoken.OnDropped()\n\t\tcase ResponseTypeDropped:\n\t\t\ttoken.OnIgnore()\n\t\t}\n\t\treturn resp, err"),
 ("c14-send-option-into-recv", ["C14"], "grpc/option_streaming.go", "func WithStreamSendLimiter(limiter core.Limiter) StreamInterceptorOption {\n\treturn func(cfg *streamInterceptorConfig) {\n\t\tcfg.sendLimiter = limiter", "func WithStreamSendLimiter(limiter core.Limiter) StreamInterceptorOption {\n\treturn func(cfg *streamInterceptorConfig) {\n\t\tcfg.recvLimiter = limiter"),
 ("c14-stream-error-double-complete", ["C14"], "grpc/grpc_streaming.go", "\t\tcase ResponseTypeDropped:\n\t\t\ttoken.OnDropped()\n\t\t}\n\t\treturn err\n\t}\n\ttoken.OnSuccess()\n\treturn nil\n}\n\n// SendMsg", "\t\tcase ResponseTypeDropped:\n\t\t\ttoken.OnDropped()\n\t\t}\n\t}\n\ttoken.OnSuccess()\n\treturn err\n}\n\n// SendMsg"),
 ("c15-vegas-never-probes", ["C15"], "limit/vegas.go", "return int64(l.probeJitter*float64(l.probeMultipler)*l.estimatedLimit) <= l.probeCount", "return int64(l.probeJitter*float64(l.probeMultipler)*l.estimatedLimit) <= l.probeCount-1<<40"),
 ("c15-minimum-keeps-max", ["C15", "C18"], "measurements/minimum.go", "if oldValue == 0.0 || sample < oldValue {", "if oldValue == 0.0 || sample > oldValue {"),
 ("c15-gradient-no-reset", ["C15"], "limit/gradient.go", "\t\t\tl.rttNoLoadMeasurement.Reset()\n", "\n"),
 ("c15-gradient-countdown-not-rearmed", ["C15"], "limit/gradient.go", "\t\t\tl.resetRTTCounter = nextProbeCountdown(l.probeInterval)\n\n", "\t\t\tl.resetRTTCounter = 1 << 40\n\n"),
 ("c16-aimd-drop-no-notify", ["C16"], "limit/aimd.go", "\t\tl.limit = int(math.Max(1, math.Min(float64(l.limit-1), float64(l.limit)*l.backOffRatio)))\n\t\tl.notifyListeners(l.limit)", "\t\tl.limit = int(math.Max(1, math.Min(float64(l.limit-1), float64(l.limit)*l.backOffRatio)))"),
 ("c16-gradient-probe-no-notify", ["C16"], "limit/gradient.go", "\t\t\tl.logger.Debugf(\"probe minRTT limit=%d\", int(l.estimatedLimit))\n\t\t\tl.notifyListeners(l.estimatedLimit)", "\t\t\tl.logger.Debugf(\"probe minRTT limit=%d\", int(l.estimatedLimit))"),
 ("c16-vegas-notify-presmoothing", ["C16"], "limit/vegas.go", "\tl.estimatedLimit = newLimit\n\tl.notifyListeners(l.estimatedLimit)", "\tl.notifyListeners(l.estimatedLimit)\n\tl.estimatedLimit = newLimit"),
 ("c16-windowed-registers-self-only", ["C16"], "limit/windowed.go", "\tl.listeners = append(l.listeners, consumer)\n\tl.delegate.NotifyOnChange(consumer)\n", "\tl.listeners = append(l.listeners, consumer)\n"),
 ("c17-aimd-string-no-lock", ["C17"], "limit/aimd.go", "func (l *AIMDLimit) EstimatedLimit() int {\n\tl.mu.RLock()\n\tdefer l.mu.RUnlock()\n\treturn l.limit", "func (l *AIMDLimit) EstimatedLimit() int {\n\treturn l.limit"),
 ("c17-registergauge-no-lock", ["C17"], "metric_registry/gometrics/registry.go", "\tr.mu.Lock()\n\tdefer r.mu.Unlock()\n\n\t// only add once\n\tif _, ok := r.registeredGauges[ID]; ok {", "\tif _, ok := r.registeredGauges[ID]; ok {"),
 ("c17-precise-getlimit-no-lock", ["C17"], "strategy/precise.go", "func (s *PreciseStrategy) GetLimit() int {\n\ts.mu.Lock()\n\tdefer s.mu.Unlock()\n\treturn int(s.limit)", "func (s *PreciseStrategy) GetLimit() int {\n\treturn int(s.limit)"),
 ("c17-single-get-no-lock", ["C17"], "measurements/single.go", "func (m *SingleMeasurement) Get() float64 {\n\tm.mu.RLock()\n\tdefer m.mu.RUnlock()\n\treturn m.value", "func (m *SingleMeasurement) Get() float64 {\n\treturn m.value"),
 ("c18-minimum-lt-to-gt", ["C18"], "measurements/minimum.go", "if oldValue == 0.0 || sample < oldValue {", "if oldValue == 0.0 || sample > oldValue {"),
 ("c18-warmup-count-plus-one", ["C18"], "measurements/exponential_average.go", "\t\tm.value = m.sum / float64(m.count)", "\t\tm.value = m.sum / float64(m.count+1)"),
 ("c18-reset-forgets-sum", ["C18"], "measurements/exponential_average.go", "\tm.value = 0\n\tm.count = 0\n\tm.sum = 0\n", "\tm.value = 0\n\tm.count = 0\n"),
 ("c18-dropped-increments-count", ["C18", "C09"], "measurements/immutable_sample_window.go", "\t\tsampleCount: s.sampleCount,\n\t\tdidDrop:     true,", "\t\tsampleCount: s.sampleCount + 1,\n\t\tdidDrop:     true,"),
 ("c18-sema-flag-constant-false", ["C18"], "measurements/moving_average.go", "\tif newValue != m.value {\n\t\tchanged = true\n\t}", "\tif newValue != m.value {\n\t\tchanged = false\n\t}"),
 ("c19-fixedpool-backlog-not-forwarded", ["C19"], "patterns/pool/fixed_pool.go", "\t\t\t\tOrdering:          limiter.OrderingFIFO,\n\t\t\t\tMaxBacklogSize:    maxBacklog,", "\t\t\t\tOrdering:          limiter.OrderingFIFO,\n\t\t\t\tMaxBacklogSize:    1,"),
 ("c19-pool-timeout-dropped", ["C19"], "patterns/pool/generic_pool.go", "\t\t\t\tOrdering:          limiter.OrderingLIFO,\n\t\t\t\tMaxBacklogSize:    maxBacklog,\n\t\t\t\tMaxBacklogTimeout: timeout,", "\t\t\t\tOrdering:          limiter.OrderingLIFO,\n\t\t\t\tMaxBacklogSize:    maxBacklog,\n\t\t\t\tMaxBacklogTimeout: time.Nanosecond,"),
 ("c20-inflight-sampled-before-increment", ["C20"], "strategy/precise.go", "\ts.inFlight++\n\ts.metricListener.AddSample(float64(s.inFlight))", "\ts.metricListener.AddSample(float64(s.inFlight))\n\ts.inFlight++"),
 ("c20-drop-counter-always", ["C20"], "core/metric_registry.go", "\tif didDrop {\n\t\ts.DropCounterListener.AddSample(1.0)\n\t}", "\ts.DropCounterListener.AddSample(1.0)"),
 ("c20-flag-only-fix-deadlock", ["C20"], "metric_registry/gometrics/registry.go", "\tr.lifecycleMu.Lock()\n\tif !r.started {\n\t\tr.lifecycleMu.Unlock()\n\t\treturn\n\t}\n\tr.stopper <- true\n\tr.wg.Wait()\n\tr.started = false\n\tr.lifecycleMu.Unlock()", "\tr.mu.Lock()\n\tif !r.started {\n\t\tr.mu.Unlock()\n\t\treturn\n\t}\n\tr.stopper <- true\n\tr.wg.Wait()\n\tr.started = false\n\tr.mu.Unlock()"),
 ("c20-started-never-set", ["C20"], "metric_registry/datadog/registry.go", "\t\tr.started = true\n", "\n"),
 ("c20-timing-sent-as-count", ["C20"], "metric_registry/datadog/registry.go", "l.client.TimeInMilliseconds(l.id, value, tags, 1.0)", "l.client.Count(l.id, int64(value), tags, 1.0)"),
 ("c20-prefix-dropped", ["C20"], "metric_registry/gometrics/registry.go", "\t\tcounter: gometrics.GetOrRegisterCounter(\n\t\t\tr.prefix+ID,", "\t\tcounter: gometrics.GetOrRegisterCounter(\n\t\t\tID,"),
 ("c20-stop-does-not-wait", ["C20"], "metric_registry/gometrics/registry.go", "\tr.stopper <- true\n\tr.wg.Wait()\n\tr.started = false\n\tr.lifecycleMu.Unlock()", "\tr.stopper <- true\n\tr.started = false\n\tr.lifecycleMu.Unlock()"),
]

EXTRA = {  # mutants that need an extra field etc.
 "c05-setlimit-skipped-on-decrease": ("limiter/default.go", "\tnextUpdateTime int64\n\tmu             sync.RWMutex\n}", "\tnextUpdateTime int64\n\tmu             sync.RWMutex\n\tlastEst        int\n}"),
}


def sh(cmd, cwd=None, env=None, timeout=900):
    p = subprocess.run(cmd, shell=True, cwd=cwd, env=env, stdout=subprocess.PIPE, stderr=subprocess.STDOUT, text=True, timeout=timeout)
    return p.returncode, p.stdout


def main():
    sel = sys.argv[1:]
    os.makedirs(WORK, exist_ok=True)
    vdir = os.path.join(WORK, "verif")
    shutil.rmtree(vdir, ignore_errors=True)
    os.makedirs(vdir)
    for d in ("bin", "harness"):
        shutil.copytree(os.path.join(VERIF, d), os.path.join(vdir, d))
    shutil.copy(os.path.join(VERIF, "known_findings.json"), vdir)
    results = []
    outp = os.path.join(VERIF, "seeded", "catalogue_results.json")
    prev = {}
    if os.path.exists(outp) and sel:
        prev = {r["mutant"]: r for r in json.load(open(outp))["results"]}
    for name, props, f, old, new in M:
        if sel and not any(s in name for s in sel):
            if name in prev:
                results.append(prev[name])
            continue
        rdir = os.path.join(WORK, "repo")
        shutil.rmtree(rdir, ignore_errors=True)
        shutil.copytree(REPO, rdir, ignore=shutil.ignore_patterns(".git", "examples"))
        edits = [(f, old, new)]
        if name in EXTRA:
            edits.append(EXTRA[name])
        ok = True
        for ef, eo, en in edits:
            p = os.path.join(rdir, ef)
            s = open(p).read()
            if eo not in s:
                print(f"{name}: PATTERN NOT FOUND in {ef}")
                ok = False
                break
            open(p, "w").write(s.replace(eo, en, 1))
        if not ok:
            results.append({"mutant": name, "error": "pattern not found"})
            continue
        env = dict(os.environ, GOFLAGS="-mod=mod")
        rc, out = sh("go build ./core/... ./limit/... ./limiter/... ./strategy/... ./measurements/... ./metric_registry/... ./grpc/... ./patterns/...", cwd=rdir, env=env)
        if rc != 0:
            print(f"{name}: DOES NOT COMPILE\n{out[-600:]}")
            results.append({"mutant": name, "error": "does not compile"})
            continue
        rc, out = sh("go test -vet=off -count=1 ./... 2>&1 | grep -E '^(FAIL|---)' | head -5", cwd=rdir, env=env)
        suite_ok = out.strip() == ""
        rec = {"mutant": name, "file": f, "expected": props, "existing_suite_passes": suite_ok, "caught_by": [], "missed_by": []}
        for pid in props:
            env2 = dict(os.environ, VERIF_DIR=vdir, VERIF_REPO=rdir)
            t0 = time.time()
            rc, out = sh(f"{vdir}/bin/check {pid} --tier quick", cwd=vdir, env=env2)
            dt = time.time() - t0
            viol = [l for l in out.splitlines() if l.startswith("  violation class=")]
            if rc == 1:
                rec["caught_by"].append({"property": pid, "seconds": round(dt, 1), "first": viol[0].strip()[:160] if viol else ""})
            elif rc == 0:
                rec["missed_by"].append(pid)
            else:
                rec.setdefault("errors", []).append({"property": pid, "exit": rc, "tail": out[-400:]})
        status = "CAUGHT" if rec["caught_by"] else ("ERROR" if rec.get("errors") else "MISSED")
        print(f"{name}: {status} suite_ok={suite_ok} caught={[c['property'] for c in rec['caught_by']]} missed={rec['missed_by']} {[e['exit'] for e in rec.get('errors', [])]}")
        sys.stdout.flush()
        results.append(rec)
    os.makedirs(os.path.dirname(outp), exist_ok=True)
    json.dump({"note": "sensitivity catalogue: each edit applied alone to a scratch copy of /repo; quick tier of the named checks", "results": results}, open(outp, "w"), indent=1)
    shutil.rmtree(WORK, ignore_errors=True)


if __name__ == "__main__":
    main()
