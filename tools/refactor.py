#!/usr/bin/env python3
"""False-alarm control: collects a behaviour-preserving refactoring from a sub-agent's scratch worktree,
verifies it independently (applies to a fresh copy of /repo HEAD, compiles, existing suite passes twice)
and runs ALL 20 quick checks against the refactored tree. Every check is expected to exit 0.
Stored under /verif/refactors/<name>/ (patch.diff, REFACTOR.md, meta.json).

usage: tools/refactor.py collect <worktree> <name> <anchor-property>
       tools/refactor.py recheck [name-substring ...] [--thorough]
"""
import json, os, shutil, sys, glob
import seeded as S

ALL = ["C%02d" % i for i in range(1, 21)]


def run(name, meta, tier="quick"):
    dst = os.path.join(S.VERIF, "refactors", name)
    S.SCR = "/tmp/verif-refactor-" + name
    tree = S.fresh_tree(name)
    v = meta.setdefault("verified", {})
    rc, out = S.sh(f"git apply {dst}/patch.diff", cwd=tree)
    v["patch_applies"] = rc == 0
    if rc != 0:
        v["apply_error"] = out[-400:]
        meta["alarms_" + tier] = ["PATCH-DOES-NOT-APPLY"]
        return
    v.pop("apply_error", None)
    rc, out = S.sh("go build ./core/... ./limit/... ./limiter/... ./strategy/... ./measurements/... ./metric_registry/... ./grpc/... ./patterns/...", cwd=tree, env=S.goenv())
    v["compiles"] = rc == 0
    fails = 0
    for i in range(2):
        rc, out = S.sh("go test -vet=off -count=1 ./... 2>&1 | grep -E '^(FAIL|--- FAIL)' | head -5", cwd=tree, env=S.goenv())
        if out.strip():
            fails += 1
            v["suite_failure"] = out.strip()[:300]
    v["existing_suite_passes_2_runs"] = fails == 0
    vdir = S.verif_copy()
    checks = S.run_checks(tree, ALL, vdir, tier)
    meta["checks_" + tier] = checks
    meta["alarms_" + tier] = [c["property"] for c in checks if c["exit"] != 0]
    shutil.rmtree(S.SCR, ignore_errors=True)


def collect(wt, name, prop):
    dst = os.path.join(S.VERIF, "refactors", name)
    os.makedirs(dst, exist_ok=True)
    S.sh("git add -N .", cwd=wt)
    rc, diff = S.sh("git diff -- . ':(exclude)REFACTOR.md'", cwd=wt)
    open(os.path.join(dst, "patch.diff"), "w").write(diff)
    if os.path.exists(os.path.join(wt, "REFACTOR.md")):
        shutil.copy(os.path.join(wt, "REFACTOR.md"), dst)
    meta = {"name": name, "anchor_property": prop, "kind": "behaviour-preserving refactoring (false-alarm control)",
            "source": "independent sub-agent given only the property text and a private worktree; asked to keep the property",
            "expected": "every check exits 0"}
    run(name, meta)
    json.dump(meta, open(os.path.join(dst, "meta.json"), "w"), indent=1)
    print(name, "verified", meta["verified"], "alarms", meta.get("alarms_quick"))
    for c in meta.get("checks_quick", []):
        if c["exit"] != 0:
            print("  ", c["property"], "exit", c["exit"], c["violations"][:2], c["tail"][-300:])


def recheck(sel, tier):
    for d in sorted(glob.glob(os.path.join(S.VERIF, "refactors", "*", "meta.json"))):
        meta = json.load(open(d))
        if sel and not any(s in meta["name"] for s in sel):
            continue
        if S.SHARD and (sum(map(ord, meta["name"])) % S.SHARD[1]) != S.SHARD[0]:
            continue
        run(meta["name"], meta, tier)
        json.dump(meta, open(d, "w"), indent=1)
        print(meta["name"], "alarms", meta.get("alarms_" + tier))
        sys.stdout.flush()


if __name__ == "__main__":
    if sys.argv[1] == "collect":
        collect(sys.argv[2], sys.argv[3], sys.argv[4])
    else:
        a = sys.argv[2:]
        tier = "quick"
        if "--thorough" in a:
            tier = "thorough"
            a.remove("--thorough")
        recheck(a, tier)
