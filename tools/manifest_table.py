# edited by hand; consumed by gen_manifest.py
for i in range(1, 21):
    pending("C%02d" % i, "check under construction in this round (deterministic-simulation check planned in DESIGN.md §3); not claimed until it runs clean on the unchanged tree")
