# edited by hand; consumed by gen_manifest.py
CONC = "deterministic simulation: seeded schedule search over AST-inserted scheduling points in synctest bubbles (virtual clock), "
HIST = "deterministic simulation (history driver): seeded fault-structured operation histories with seeded hidden randomness, "
NOTE_CONC = ("Sampling, not enumeration. Interleavings are explored at inserted scheduling points (locks, atomics, channel operations, select, go, Broadcast/Wait); "
             "code between two points is atomic w.r.t. other tasks; the sync.Cond helper goroutine of blockUntilSignaled/subscribe is not preempted. "
             "Trusted: bin/verif-inst only inserts inert calls and the ordered-select wrapper (DESIGN.md §2.1); go1.26.8 testing/synctest fake clock; harness oracles. Determinism is probed on every run (3 processes, GOMAXPROCS 1/4/16).")
NOTE_HIST = ("Sampling, not enumeration. Single driving goroutine: no schedule dimension; the simulator contributes the seeded environment/fault model, control of math/rand, "
             "reference models / twin runs, bounded-liveness checks, tape shrinking and exact replay. Valid-configuration domains are stated in DESIGN.md §3.")

claim("C01", CONC + "porcupine linearizability of recorded histories against a counting gate + conservation invariants at stable points",
      "Every Acquire/complete/SetLimit history of a seeded run is checked for linearizability against the atomic counting gate; thousands of schedules per run of the check. Exploration is the right level: the property quantifies over interleavings and limit trajectories, which are sampled with replayable seeds.",
      NOTE_CONC + " porcupine timeouts (5 s) are counted inconclusive.", "DESIGN.md §3 C01")
claim("C02", CONC + "ledger-vs-every-layer conservation invariants at stable points and after draining, with timeouts / cancellations placed on release instants (also mid-operation), slow callers (F-lag, also while a timer is armed), formatting debug loggers, lock-deadlock detection",
      "Conservation is checked at every stable point of every run against an independent ledger, for all limiter stacks and all three outcomes, with give-ups coinciding with releases on the virtual clock.",
      NOTE_CONC, "DESIGN.md §3 C02")
claim("C03", HIST + "lock-step reference gate for sequential histories incl. dynamic partitions and keys differing from partition names; " + "porcupine linearizability for concurrent histories incl. a partition added concurrently (twice)",
      "Every result and every observable count/limit is compared with an executable partition gate after each operation (exact dyadic shares); concurrent histories are checked for linearizability against the same gate.",
      NOTE_CONC + " Fractions are k/32 so ceil() is float-exact.", "DESIGN.md §3 C03")
claim("C04", HIST + "bounds oracle after every sample, panics recovered",
      "Each valid configuration/wrapper combination is driven through fault-structured sample histories (rtt 0, huge, drop-only windows, idle, clock jumps) and the estimate is checked after every sample.",
      NOTE_HIST, "DESIGN.md §3 C04")
claim("C05", CONC + "enforced-limit == estimate invariant right after construction (both public constructors) and at stable points for all strategy kinds (dynamic partitions, F-lag, debug loggers) + state-based check of every completed update (incl. a settable limit changed from outside)",
      "Window-closing completions race under seeded schedules; at every stable point the strategy limit, partition shares and limit gauges must equal the floored estimate.",
      NOTE_CONC, "DESIGN.md §3 C05")
claim("C06", HIST + "never-raises check on every drop sample (exact AIMD arithmetic) + bounded-liveness suffix of sustained drops; concurrent AIMD samples must be serializable and concurrent drop-only samples on Vegas / Gradient never raise the estimate (seeded schedules)",
      "Reachable states are produced by seeded prefixes; every drop sample is checked and a sustained drop run must reach the floor within a configuration-derived bound.",
      NOTE_HIST + " Bounds are generous closed forms (calibrated, DESIGN.md §3 C06/C07).", "DESIGN.md §3 C06")
claim("C07", HIST + "demand-gate check on every app-limited sample + bounded-liveness suffix of healthy saturated samples; concurrent AIMD samples must be serializable and concurrent healthy saturated samples on Vegas / Gradient / Gradient2 never lower the estimate (seeded schedules)",
      "Reachable states from seeded prefixes; the per-sample growth rules (AIMD, Gradient) and bounded recovery to the ceiling (Vegas, Gradient, Gradient2) are checked.",
      NOTE_HIST + " Gradient probe interval 1 (probe on every sample) is outside the check's domain.", "DESIGN.md §3 C07")
claim("C08", HIST + "relational twin-run oracle (same seed, same prefix, final sample differing only in rtt)",
      "Twin instances are made identical by seeding the library's hidden jitter; the estimate after the higher-rtt sample must not exceed the one after the lower-rtt sample.",
      NOTE_HIST, "DESIGN.md §3 C08")
claim("C09", HIST + "virtual-clock reference window model predicting every delegate call and its arguments",
      "The DefaultLimiter is driven on the synctest fake clock (exact durations incl. 0 and threshold equality) and the WindowedLimit with caller-supplied clocks; a reference fold predicts every update of the algorithm exactly.",
      NOTE_HIST, "DESIGN.md §3 C09")
claim("C10", CONC + "stable-point invariant 'no caller blocked while capacity is free' with releases forced into the attempt-failed/asleep window and cancellations landing on release instants in the middle of Acquire",
      "The scheduler parks waiters at every scheduling point between the failed attempt and going to sleep and runs whole releases inside that window; no timeout or cancellation is injected before the check.",
      NOTE_CONC, "DESIGN.md §3 C10")
claim("C11", CONC + "scripted arrival orders + reference backlog list for every constructor, incl. expiries, cancellations, releases racing with a late caller that may barge in, and a partitioned delegate that refuses the head while it would admit a later waiter",
      "Arrival order is pinned by running each arrival to a stable point; after each release the grantee must be the reference backlog's oldest/newest, for every way of constructing the limiter.",
      NOTE_CONC, "DESIGN.md §3 C11")
claim("C12", CONC + "blocked-callers <= max backlog at every quiescent point, queue_size gauge == blocked callers at stable points and whenever no caller is inside an operation, sequential-model check of solo Acquires",
      "Simultaneous arrivals are parked between the length check and the push; give-ups coincide with hand-offs on the virtual clock.",
      NOTE_CONC, "DESIGN.md §3 C12")
claim("C13", CONC + "exact-instant bound oracle on the virtual clock (arrival+timeout, deadline incl. the zero time, cancel instant, context deadlines, equality cases); strict F-lag for slow releasers and slow callers, which are exempt from exact instants but must still return",
      "With all capacity held (or released on the same 1 ms grid as the bounds) every blocked call must return refused exactly at its bound; already-cancelled / past-deadline calls at the arrival instant.",
      NOTE_CONC, "DESIGN.md §3 C13")
claim("C14", HIST + "event-log protocol oracle over fake handler/invoker/stream and recording limiter doubles with injected refusals and errors; concurrent parts on real limiters; end-to-end part: real gRPC client and server over an in-memory listener inside the bubble, handler goroutines scheduled by the simulator, client deadlines / cancellations mid-call, ledger oracle (exactly-once completion, refusal short-circuit, unchanged results, zero in flight at the end)",
      "Every operation's event sequence (acquire on the right limiter, wrapped call, exactly one listener call of the classified kind, unchanged result, refusal short-circuit and status code) is checked.",
      NOTE_HIST + " Stream classifier mapping: RecvMsg -> stream server classifier, SendMsg -> stream client classifier.", "DESIGN.md §3 C14")
claim("C15", HIST + "feasible-reset-set observer over RTTNoLoad() (needs no private state)",
      "RTT streams with step changes; the observer keeps every reset position consistent with the observed baselines; an empty set or an overdue reset is a violation.",
      NOTE_HIST, "DESIGN.md §3 C15")
claim("C16", HIST + "listener bookkeeping oracle with late registration through every wrapper combination; concurrent samples with slow listeners (seeded schedules)",
      "After every sample/SetLimit: estimate changed => every registered listener called, last delivered value == EstimatedLimit(), wrapper estimate == delegate estimate, traced forwarding unchanged.",
      NOTE_HIST, "DESIGN.md §3 C16")
claim("C17", CONC + "Go race detector as oracle in a -race build, with the scheduler's own synchronisation hidden from it (RaceDisable / go:norace)",
      "The race detector decides; the simulator supplies replayable schedules over shared instances of every public type and removes its own happens-before edges. Races whose two accesses never occur in an explored run are missed.",
      NOTE_CONC + " GORACE suppress_equal_stacks=0 so shrinking/replay see repeated reports.", "DESIGN.md §3 C17")
claim("C18", HIST + "reference folds per primitive, permutation check for the sample window, Reset==fresh twin oracle, change-flag check; concurrent Add/Update/Reset must be serializable (seeded schedules)",
      "Each primitive is driven through Add/Get/Reset/Update histories and compared with a reference fold written from its name; reset instances are compared with fresh twins.",
      NOTE_HIST, "DESIGN.md §3 C18")
claim("C19", CONC + "held <= limit at every quiescent point and everybody-served at the end of the schedule, for both pools and all orderings, plus a serial caller driving the pool through a sampling window",
      "More callers than the limit arrive (within the backlog bound) with hold times far below the backlog timeout; every caller must be granted.",
      NOTE_CONC, "DESIGN.md §3 C19")
claim("C20", CONC + "real go-metrics and datadog statsd client inside the bubble over an in-memory writer, poller goroutine scheduled like a task; " + "recording registry for metric truthfulness",
      "Part (a): every emitted in-flight/rtt/dropped sample and gauge is compared with the ledger. Part (b): Start/Stop/Register sequences with Stop landing on poll ticks; suppliers log their invocation instants; samples are read back from the backend.",
      NOTE_CONC + " Third-party client code runs real but un-instrumented.", "DESIGN.md §3 C20")
