#!/usr/bin/env python3
"""Prints the markdown tables for DESIGN.md §9 from /verif/seeded/*/meta.json and catalogue_results.json."""
import json, glob, os, re

rows = []
for f in sorted(glob.glob("/verif/seeded/*/meta.json")):
    m = json.load(open(f))
    d = os.path.dirname(f)
    files = sorted(set(re.findall(r"^\+\+\+ b/(\S+)", open(os.path.join(d, "patch.diff")).read(), re.M)))
    idea = ""
    mp = os.path.join(d, "MUTANT.md")
    if os.path.exists(mp):
        txt = open(mp).read()
        idea = m.get("idea", "")
    own = m["breaks_property"]
    caught = m.get("caught_by_quick", [])
    allc = m.get("caught_by_quick_all", [])
    v = m.get("verified", {})
    ok = all(v.get(k) for k in ("patch_applies", "compiles", "existing_suite_passes_2_runs", "demo_fails_with_change", "demo_passes_without_change"))
    rows.append((m["name"], own, ", ".join(files), "yes" if ok else "NO", ", ".join(caught) or "—", ", ".join(x for x in allc if x not in caught), m.get("needs", "")))

print("| seeded change | breaks | files | verified (applies, compiles, suite green, demo fails with / passes without) | caught by its property's quick check | also caught by | what it needs to manifest |")
print("|---|---|---|---|---|---|---|")
for r in rows:
    print("| " + " | ".join(r) + " |")

cat = json.load(open("/verif/seeded/catalogue_results.json"))["results"]
n = len(cat)
c = sum(1 for r in cat if r.get("caught_by"))
print()
print(f"Catalogue: {c} of {n} single-edit mutants caught by the quick tier of the named check(s).")
for r in cat:
    if not r.get("caught_by"):
        print("  not caught:", r["mutant"], r.get("error", ""), r.get("missed_by", ""))
