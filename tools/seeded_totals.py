#!/usr/bin/env python3
"""Prints the totals of §9 (a) from /verif/seeded/*/meta.json: caught by the own property's quick tier, by another
property's only, undecided (exit 2), not caught."""
import json, glob
own, cross, undec, missed = [], [], [], []
waves = {}
for f in sorted(glob.glob('/verif/seeded/*/meta.json')):
    m = json.load(open(f))
    n = m['name']
    waves.setdefault(m.get('wave', '?'), 0)
    waves[m.get('wave', '?')] += 1
    if m.get('caught_by_quick'):
        own.append(n)
        continue
    allc = [c for c in m.get('caught_by_quick_all', []) if c != m['breaks_property']]
    exits = [c['exit'] for c in m.get('checks', []) if c['property'] == m['breaks_property']]
    if allc:
        cross.append(n + '→' + '/'.join(allc))
    elif any(e not in (0, 1) for e in exits):
        undec.append(n)
    else:
        missed.append(n)
print('total', len(own) + len(cross) + len(undec) + len(missed), 'by wave', waves)
print('own', len(own))
print('cross', len(cross), '; '.join(cross))
print('exit2', len(undec), ' '.join(undec))
print('missed', len(missed), ' '.join(missed))
