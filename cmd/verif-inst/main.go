// verif-inst copies a Go source tree (non-test files of the repository under
// test) into a scratch directory and inserts scheduling points for the
// deterministic simulator. Insertions only: no existing statement is changed
// or removed. See /verif/DESIGN.md §2.1.
//
// usage: verif-inst -src /repo -dst /scratch/repo [-q]
package main

import (
	"bytes"
	"flag"
	"fmt"
	"go/ast"
	"go/format"
	"go/parser"
	"go/token"
	"io"
	"os"
	"path/filepath"
	"reflect"
	"sort"
	"strings"
)

const modPath = "github.com/platinummonkey/go-concurrency-limits"

var (
	nYield, nPreLock, nSkippedFuncs, nSelect int
	quiet                                    bool
)

func main() {
	src := flag.String("src", "/repo", "source tree")
	dst := flag.String("dst", "", "destination (scratch) tree")
	flag.BoolVar(&quiet, "q", false, "quiet")
	flag.Parse()
	if *dst == "" {
		fail("missing -dst")
	}
	if err := run(*src, *dst); err != nil {
		fail(err.Error())
	}
	if !quiet {
		fmt.Printf("verif-inst: yield=%d prelock=%d skipped_cond_funcs=%d ordered_selects=%d\n", nYield, nPreLock, nSkippedFuncs, nSelect)
	}
}

func fail(msg string) {
	fmt.Fprintln(os.Stderr, "verif-inst: "+msg)
	os.Exit(2)
}

func run(src, dst string) error {
	var files []string
	err := filepath.Walk(src, func(p string, info os.FileInfo, err error) error {
		if err != nil {
			return err
		}
		rel, _ := filepath.Rel(src, p)
		if info.IsDir() {
			base := info.Name()
			if rel != "." && (strings.HasPrefix(base, ".") || base == "examples" || base == "verifsim" || base == "vendor" || base == "testdata") {
				return filepath.SkipDir
			}
			return nil
		}
		if rel == "go.mod" || rel == "go.sum" {
			files = append(files, rel)
			return nil
		}
		if strings.HasSuffix(rel, ".go") && !strings.HasSuffix(rel, "_test.go") {
			files = append(files, rel)
		}
		return nil
	})
	if err != nil {
		return err
	}
	sort.Strings(files)
	for _, rel := range files {
		in := filepath.Join(src, rel)
		out := filepath.Join(dst, rel)
		if err := os.MkdirAll(filepath.Dir(out), 0o755); err != nil {
			return err
		}
		if !strings.HasSuffix(rel, ".go") {
			if err := copyFile(in, out); err != nil {
				return err
			}
			continue
		}
		b, err := instrumentFile(in, rel)
		if err != nil {
			return fmt.Errorf("%s: %v", rel, err)
		}
		if err := os.WriteFile(out, b, 0o644); err != nil {
			return err
		}
	}
	// generated hook package
	if err := os.MkdirAll(filepath.Join(dst, "verifsim"), 0o755); err != nil {
		return err
	}
	if err := os.WriteFile(filepath.Join(dst, "verifsim", "sim.go"), []byte(simSource), 0o644); err != nil {
		return err
	}
	// generated read-only accessors the oracles need and the public API lacks
	if _, err := os.Stat(filepath.Join(dst, "limiter", "default.go")); err == nil {
		if err := os.WriteFile(filepath.Join(dst, "limiter", "zz_verif_access.go"), []byte(accessSource), 0o644); err != nil {
			return err
		}
	}
	return nil
}

func copyFile(in, out string) error {
	f, err := os.Open(in)
	if err != nil {
		return err
	}
	defer f.Close()
	o, err := os.Create(out)
	if err != nil {
		return err
	}
	defer o.Close()
	_, err = io.Copy(o, f)
	return err
}

type inst struct {
	fset      *token.FileSet
	rel       string
	atomicPkg string // local name of sync/atomic ("" if not imported)
	changed   bool
	locksOnly bool // inside a sync.Cond waiter: only PreLock insertions
}

func instrumentFile(path, rel string) ([]byte, error) {
	fset := token.NewFileSet()
	// comments are dropped on purpose: go/format can otherwise attach one in
	// the middle of an inserted call. Directive comments (//go:) before the
	// package clause are re-added below.
	srcBytes, err := os.ReadFile(path)
	if err != nil {
		return nil, err
	}
	f, err := parser.ParseFile(fset, path, srcBytes, parser.SkipObjectResolution)
	if err != nil {
		return nil, err
	}
	in := &inst{fset: fset, rel: rel}
	for _, imp := range f.Imports {
		if imp.Path.Value == `"sync/atomic"` {
			in.atomicPkg = "atomic"
			if imp.Name != nil {
				in.atomicPkg = imp.Name.Name
			}
		}
	}
	for _, d := range f.Decls {
		fd, ok := d.(*ast.FuncDecl)
		if !ok || fd.Body == nil {
			continue
		}
		in.funcBody(fd.Body)
	}
	var buf bytes.Buffer
	if err := format.Node(&buf, fset, f); err != nil {
		return nil, err
	}
	out := buf.String()
	if in.changed {
		// add the import as a separate declaration right after the package clause
		idx := strings.Index(out, "\npackage ")
		var head, tail string
		if strings.HasPrefix(out, "package ") {
			nl := strings.Index(out, "\n")
			head, tail = out[:nl+1], out[nl+1:]
		} else if idx >= 0 {
			nl := strings.Index(out[idx+1:], "\n")
			head, tail = out[:idx+1+nl+1], out[idx+1+nl+1:]
		} else {
			return nil, fmt.Errorf("no package clause")
		}
		out = head + "\nimport verifsim \"" + modPath + "/verifsim\"\n" + tail
	}
	// keep build constraints / go directives that precede the package clause
	var directives []string
	for _, line := range strings.Split(string(srcBytes), "\n") {
		t := strings.TrimSpace(line)
		if strings.HasPrefix(t, "package ") {
			break
		}
		if strings.HasPrefix(t, "//go:build") || strings.HasPrefix(t, "// +build") {
			directives = append(directives, t)
		}
	}
	if len(directives) > 0 {
		out = strings.Join(directives, "\n") + "\n\n" + out
	}
	res, err := format.Source([]byte(out))
	if err != nil {
		return nil, fmt.Errorf("format: %v", err)
	}
	return res, nil
}

// funcBody instruments one function body. A sync.Cond waiter only gets the
// scheduling point in front of its Lock calls (where it does not hold L yet):
// it must never park while holding a Cond's L.
func (in *inst) funcBody(body *ast.BlockStmt) {
	if isCondWaiter(body) {
		nSkippedFuncs++
		saved := in.locksOnly
		in.locksOnly = true
		in.block(&body.List)
		in.locksOnly = saved
		return
	}
	saved := in.locksOnly
	in.locksOnly = false
	in.block(&body.List)
	in.locksOnly = saved
}

// isCondWaiter: the function's own statements (not nested func literals) call
// .Wait() and mention a selector ".L" (a sync.Cond's locker). Such a function
// must never park while holding L, since Cond.Wait re-locks L with a real lock.
func isCondWaiter(body *ast.BlockStmt) bool {
	hasWait, hasL := false, false
	ast.Inspect(body, func(n ast.Node) bool {
		switch x := n.(type) {
		case *ast.FuncLit:
			return false
		case *ast.CallExpr:
			if sel, ok := x.Fun.(*ast.SelectorExpr); ok && sel.Sel.Name == "Wait" && len(x.Args) == 0 {
				hasWait = true
			}
		case *ast.SelectorExpr:
			if x.Sel.Name == "L" {
				hasL = true
			}
		}
		return true
	})
	return hasWait && hasL
}

func (in *inst) site(n ast.Node) string {
	p := in.fset.Position(n.Pos())
	return fmt.Sprintf("%s:%d", in.rel, p.Line)
}

func (in *inst) yieldStmt(site string) ast.Stmt {
	nYield++
	in.changed = true
	return &ast.ExprStmt{X: &ast.CallExpr{
		Fun:  &ast.SelectorExpr{X: ast.NewIdent("verifsim"), Sel: ast.NewIdent("Yield")},
		Args: []ast.Expr{&ast.BasicLit{Kind: token.STRING, Value: fmt.Sprintf("%q", site)}},
	}}
}

func (in *inst) preLockStmt(recv ast.Expr, read bool, site string) ast.Stmt {
	nPreLock++
	in.changed = true
	r := "false"
	if read {
		r = "true"
	}
	return &ast.ExprStmt{X: &ast.CallExpr{
		Fun: &ast.SelectorExpr{X: ast.NewIdent("verifsim"), Sel: ast.NewIdent("PreLock")},
		Args: []ast.Expr{
			&ast.UnaryExpr{Op: token.AND, X: recv},
			ast.NewIdent(r),
			&ast.BasicLit{Kind: token.STRING, Value: fmt.Sprintf("%q", site)},
		},
	}}
}

// block rewrites a statement list in place, inserting scheduling points.
func (in *inst) block(list *[]ast.Stmt) {
	var out []ast.Stmt
	for _, st := range *list {
		// 1. nested structure first
		in.nested(st)
		// 2. what to insert before this statement
		if recv, read, ok := lockCall(st); ok {
			out = append(out, in.preLockStmt(recv, read, in.site(st)))
		} else if !in.locksOnly && in.needsYield(st) {
			site := in.site(st)
			if _, isSel := st.(*ast.SelectStmt); isSel {
				site += "#select" // a task parked here may already have armed a timer for this select
			}
			out = append(out, in.yieldStmt(site))
			if sel, isSel := st.(*ast.SelectStmt); isSel {
				if blk := in.orderedSelect(sel, site); blk != nil {
					out = append(out, blk)
					continue
				}
			}
		}
		out = append(out, st)
	}
	*list = out
}

// orderedSelect takes the Go runtime's pseudo-random choice among several
// ready select cases away from the runtime (it is not seedable): the channel
// operands are evaluated once into locals, the cases are polled one at a time
// in an order drawn by the simulator (verifsim.SelectBegin, -1 = no simulator:
// no polling), and the case that fired is re-armed so that the original
// select statement, whose bodies stay untouched, has exactly one ready case.
// Returns nil for selects with fewer than two communication clauses.
func (in *inst) orderedSelect(sel *ast.SelectStmt, site string) ast.Stmt {
	type comm struct {
		send bool
		ch   *ast.Expr // operand to replace
		val  *ast.Expr // send value to replace
	}
	var comms []comm
	for _, c := range sel.Body.List {
		cc := c.(*ast.CommClause)
		switch s := cc.Comm.(type) {
		case nil: // default
		case *ast.SendStmt:
			comms = append(comms, comm{send: true, ch: &s.Chan, val: &s.Value})
		case *ast.ExprStmt:
			u, ok := unparen(s.X).(*ast.UnaryExpr)
			if !ok || u.Op != token.ARROW {
				return nil
			}
			comms = append(comms, comm{ch: &u.X})
		case *ast.AssignStmt:
			if len(s.Rhs) != 1 {
				return nil
			}
			u, ok := unparen(s.Rhs[0]).(*ast.UnaryExpr)
			if !ok || u.Op != token.ARROW {
				return nil
			}
			comms = append(comms, comm{ch: &u.X})
		default:
			return nil
		}
	}
	n := len(comms)
	if n < 2 {
		return nil
	}
	in.changed = true
	nSelect++
	var b strings.Builder
	fmt.Fprintf(&b, "_vsK := verifsim.SelectBegin(%q, %d)\n", site, n)
	for i, c := range comms {
		if c.send {
			fmt.Fprintf(&b, "_vsc%d := verifsim.SendOnly(%s)\n_vsv%d := %s\n", i, in.text(*c.ch), i, in.text(*c.val))
		} else {
			fmt.Fprintf(&b, "_vsc%d := verifsim.RecvOnly(%s)\n", i, in.text(*c.ch))
		}
	}
	fmt.Fprintf(&b, "for _vsI := 0; _vsK >= 0 && _vsI < %d; _vsI++ {\n_vsHit := false\nswitch verifsim.SelectNth(_vsK, _vsI, %d) {\n", n, n)
	for i, c := range comms {
		fmt.Fprintf(&b, "case %d:\nselect {\n", i)
		if c.send {
			fmt.Fprintf(&b, "case _vsc%d <- _vsv%d:\n_vsc%d = verifsim.Sink(_vsv%d)\n", i, i, i, i)
		} else {
			fmt.Fprintf(&b, "case _vsX, _vsOk := <-_vsc%d:\nif _vsOk {\n_vsc%d = verifsim.Refill(_vsX)\n}\n", i, i)
		}
		for j := range comms {
			if j != i {
				fmt.Fprintf(&b, "_vsc%d = nil\n", j)
			}
		}
		fmt.Fprintf(&b, "_vsHit = true\nverifsim.SelectHit(%q, %d)\ndefault:\n}\n", site, i)
	}
	b.WriteString("}\nif _vsHit {\nbreak\n}\n}\n")
	pre := parseStmts(b.String())
	for i, c := range comms {
		*c.ch = ast.NewIdent(fmt.Sprintf("_vsc%d", i))
		if c.send {
			*c.val = ast.NewIdent(fmt.Sprintf("_vsv%d", i))
		}
	}
	return &ast.BlockStmt{List: append(pre, sel)}
}

func unparen(e ast.Expr) ast.Expr {
	for {
		p, ok := e.(*ast.ParenExpr)
		if !ok {
			return e
		}
		e = p.X
	}
}

func (in *inst) text(e ast.Expr) string {
	var buf bytes.Buffer
	if err := format.Node(&buf, in.fset, e); err != nil {
		fail("print expression: " + err.Error())
	}
	return buf.String()
}

// parseStmts parses generated statements and strips their positions (they
// belong to another file set).
func parseStmts(src string) []ast.Stmt {
	f, err := parser.ParseFile(token.NewFileSet(), "gen.go", "package p\nfunc _() {\n"+src+"}\n", parser.SkipObjectResolution)
	if err != nil {
		fail("generated code does not parse: " + err.Error() + "\n" + src)
	}
	body := f.Decls[0].(*ast.FuncDecl).Body
	clearPos(reflect.ValueOf(body))
	return body.List
}

var posType = reflect.TypeOf(token.NoPos)

func clearPos(v reflect.Value) {
	switch v.Kind() {
	case reflect.Pointer, reflect.Interface:
		if !v.IsNil() {
			clearPos(v.Elem())
		}
	case reflect.Struct:
		for i := 0; i < v.NumField(); i++ {
			f := v.Field(i)
			if f.Type() == posType {
				if f.CanSet() {
					f.SetInt(0)
				}
				continue
			}
			clearPos(f)
		}
	case reflect.Slice:
		for i := 0; i < v.Len(); i++ {
			clearPos(v.Index(i))
		}
	}
}

// lockCall: statement of the form X.Lock() / X.RLock() (addressable X).
func lockCall(st ast.Stmt) (ast.Expr, bool, bool) {
	es, ok := st.(*ast.ExprStmt)
	if !ok {
		return nil, false, false
	}
	call, ok := es.X.(*ast.CallExpr)
	if !ok {
		return nil, false, false
	}
	sel, ok := call.Fun.(*ast.SelectorExpr)
	if !ok {
		return nil, false, false
	}
	if sel.Sel.Name == "Do" && len(call.Args) == 1 {
		// X.Do(f): if X is a sync.Once whose function is being run by a parked task, a second caller would block on
		// the Once's internal mutex; PreLock probes it (any other type with a Do method: the probe is a no-op)
		if !addressable(sel.X) {
			return nil, false, false
		}
		return sel.X, false, true
	}
	if len(call.Args) != 0 {
		return nil, false, false
	}
	if sel.Sel.Name != "Lock" && sel.Sel.Name != "RLock" {
		return nil, false, false
	}
	if !addressable(sel.X) {
		return nil, false, false
	}
	return sel.X, sel.Sel.Name == "RLock", true
}

func addressable(e ast.Expr) bool {
	switch x := e.(type) {
	case *ast.Ident:
		return true
	case *ast.SelectorExpr:
		return addressable(x.X)
	case *ast.IndexExpr:
		return addressable(x.X)
	case *ast.StarExpr:
		return true
	case *ast.ParenExpr:
		return addressable(x.X)
	}
	return false
}

// nested descends into compound statements and function literals.
func (in *inst) nested(st ast.Stmt) {
	switch s := st.(type) {
	case *ast.BlockStmt:
		in.block(&s.List)
	case *ast.IfStmt:
		in.block(&s.Body.List)
		if s.Else != nil {
			in.nested(s.Else)
		}
	case *ast.ForStmt:
		in.block(&s.Body.List)
	case *ast.RangeStmt:
		in.block(&s.Body.List)
	case *ast.SwitchStmt:
		for _, c := range s.Body.List {
			in.block(&c.(*ast.CaseClause).Body)
		}
	case *ast.TypeSwitchStmt:
		for _, c := range s.Body.List {
			in.block(&c.(*ast.CaseClause).Body)
		}
	case *ast.SelectStmt:
		for _, c := range s.Body.List {
			cc := c.(*ast.CommClause)
			in.block(&cc.Body)
			if in.locksOnly {
				continue
			}
			// post-wake point: first statement of every case body
			cc.Body = append([]ast.Stmt{in.yieldStmt(in.site(cc) + "#case")}, cc.Body...)
		}
	case *ast.LabeledStmt:
		in.nested(s.Stmt)
	}
	// function literals appearing in the statement's own expressions
	in.funcLits(st)
}

// funcLits instruments function literals that belong to this statement
// (not those inside nested blocks, which are reached through nested()).
func (in *inst) funcLits(st ast.Stmt) {
	ownExprs(st, func(n ast.Node) bool {
		if fl, ok := n.(*ast.FuncLit); ok {
			in.funcBody(fl.Body)
			return false
		}
		return true
	})
}

// ownExprs walks the expressions evaluated by the statement itself, not the
// statements of nested blocks.
func ownExprs(st ast.Stmt, f func(ast.Node) bool) {
	walk := func(n ast.Node) {
		if n == nil {
			return
		}
		ast.Inspect(n, func(m ast.Node) bool {
			if m == nil {
				return false
			}
			if _, ok := m.(*ast.BlockStmt); ok {
				// only reached through FuncLit bodies; f decides on FuncLit
				return false
			}
			return f(m)
		})
	}
	switch s := st.(type) {
	case *ast.ExprStmt:
		walk(s.X)
	case *ast.AssignStmt:
		for _, e := range s.Rhs {
			walk(e)
		}
		for _, e := range s.Lhs {
			walk(e)
		}
	case *ast.ReturnStmt:
		for _, e := range s.Results {
			walk(e)
		}
	case *ast.IfStmt:
		if s.Init != nil {
			ownExprs(s.Init, f)
		}
		walk(s.Cond)
	case *ast.ForStmt:
		if s.Init != nil {
			ownExprs(s.Init, f)
		}
		if s.Cond != nil {
			walk(s.Cond)
		}
	case *ast.RangeStmt:
		walk(s.X)
	case *ast.SwitchStmt:
		if s.Init != nil {
			ownExprs(s.Init, f)
		}
		if s.Tag != nil {
			walk(s.Tag)
		}
	case *ast.SendStmt:
		walk(s.Chan)
		walk(s.Value)
	case *ast.IncDecStmt:
		walk(s.X)
	case *ast.DeclStmt:
		if gd, ok := s.Decl.(*ast.GenDecl); ok {
			for _, sp := range gd.Specs {
				if vs, ok := sp.(*ast.ValueSpec); ok {
					for _, e := range vs.Values {
						walk(e)
					}
				}
			}
		}
	case *ast.GoStmt:
		walk(s.Call)
	case *ast.DeferStmt:
		walk(s.Call)
	case *ast.LabeledStmt:
		ownExprs(s.Stmt, f)
	}
}

var atomicMethodNames = map[string]bool{
	"Load": true, "Store": true, "Swap": true, "CompareAndSwap": true, "And": true, "Or": true,
}

// needsYield: the statement itself performs an atomic operation, a channel
// operation, a close, starts a goroutine, signals a condition variable, waits
// on a WaitGroup, or is a select.
func (in *inst) needsYield(st ast.Stmt) bool {
	switch st.(type) {
	case *ast.SelectStmt, *ast.SendStmt, *ast.GoStmt:
		return true
	case *ast.DeferStmt:
		return false
	}
	found := false
	ownExprs(st, func(n ast.Node) bool {
		switch x := n.(type) {
		case *ast.FuncLit:
			return false
		case *ast.UnaryExpr:
			if x.Op == token.ARROW {
				found = true
			}
		case *ast.CallExpr:
			switch fn := x.Fun.(type) {
			case *ast.Ident:
				if fn.Name == "close" && len(x.Args) == 1 {
					found = true
				}
			case *ast.SelectorExpr:
				if id, ok := fn.X.(*ast.Ident); ok && in.atomicPkg != "" && id.Name == in.atomicPkg {
					found = true
				}
				name := fn.Sel.Name
				if atomicMethodNames[name] && len(x.Args) <= 2 {
					found = true
				}
				if (name == "Broadcast" || name == "Signal" || name == "Wait") && len(x.Args) == 0 {
					found = true
				}
			}
		}
		return true
	})
	if found {
		return true
	}
	// range over a channel cannot be detected without types; not used in this repository
	return false
}

const simSource = `// Code generated by verif-inst. DO NOT EDIT.

// Package verifsim holds the scheduling-point hooks inserted into the scratch
// copy of the repository by the deterministic simulator. With Hook == nil
// (the default) every function here is a no-op.
package verifsim

import (
	"reflect"
	"sync"
	"unsafe"
)

// Kinds passed to Hook.
const (
	KindYield    = 0 // ordinary scheduling point
	KindLockWait = 1 // the lock wanted at this point is currently held
)

// Hook is installed once by the harness before any goroutine runs.
var Hook func(kind int, site string)

// RootProbe is consulted by PreLock when the lock is busy: 1 = the caller is
// the scheduler's own goroutine, which must never wait (PreLock panics with
// WouldBlock); 2 = no scheduler is active (PreLock returns and the real Lock
// blocks); 0 = an ordinary task (PreLock yields with kind lock-wait).
var RootProbe func() int

// OnWouldBlock is told the site before WouldBlock is raised.
var OnWouldBlock func(site string)

// WouldBlock is the panic value raised when the scheduler's goroutine would
// block on a lock held by a parked task.
type WouldBlock struct{ Site string }

// SelectHook decides the order in which the ready cases of a select with n
// communication clauses are tried: it returns a permutation index in
// [0, n!) (capped), or -1 when no simulator is active.
var SelectHook func(site string, n int) int

// SelectBegin is called once per execution of a rewritten select statement.
func SelectBegin(site string, n int) int {
	if h := SelectHook; h != nil {
		return h(site, n)
	}
	return -1
}

// SelectHitHook is told which case of a rewritten select was found ready on entry.
var SelectHitHook func(site string, i int)

// SelectHit reports that case i was ready when the select was entered.
func SelectHit(site string, i int) {
	if h := SelectHitHook; h != nil {
		h(site, i)
	}
}

// SelectNth returns the i-th element of permutation k of 0..n-1 (k = 0 is the
// source order; Lehmer code for n <= 5, rotation by k for larger n).
func SelectNth(k, i, n int) int {
	if n > 5 {
		return (k + i) % n
	}
	var pool [5]int
	for j := 0; j < n; j++ {
		pool[j] = j
	}
	m := n
	f := 1
	for j := 2; j < n; j++ {
		f *= j
	}
	// f = (n-1)!
	for step := 0; ; step++ {
		idx := 0
		if f > 0 {
			idx = (k / f) % m
		}
		pick := pool[idx]
		if step == i {
			return pick
		}
		copy(pool[idx:], pool[idx+1:m])
		m--
		if m == 0 {
			return pick
		}
		k %= f
		if m > 1 {
			f /= m
		} else {
			f = 1
		}
	}
}

// SelectPerms is the number of distinct orders SelectHook may return for n.
func SelectPerms(n int) int {
	if n > 5 {
		return n
	}
	f := 1
	for j := 2; j <= n; j++ {
		f *= j
	}
	return f
}

// RecvOnly / SendOnly give the channel operand of a select case a directional
// type the helpers below can produce values of.
func RecvOnly[T any](c <-chan T) <-chan T { return c }
func SendOnly[T any](c chan<- T) chan<- T { return c }

// Refill returns a channel from which exactly v can be received at once: the
// value a poll already took out of the real channel.
func Refill[T any](v T) <-chan T {
	c := make(chan T, 1)
	c <- v
	return c
}

// Sink returns a channel that accepts one send at once: the poll already
// delivered the value to the real channel.
func Sink[T any](v T) chan<- T { return make(chan T, 1) }

// Yield is a scheduling point.
func Yield(site string) {
	if h := Hook; h != nil {
		h(KindYield, site)
	}
}

// PreLock is a scheduling point in front of X.Lock() / X.RLock(): it yields
// once and then yields (kind lock-wait) until a TryLock probe succeeds, so no
// task ever blocks inside a real Lock while the holder is parked.
func PreLock(m any, read bool, site string) {
	h := Hook
	if h == nil {
		return
	}
	h(KindYield, site)
	for !probe(m, read) {
		if rp := RootProbe; rp != nil {
			switch rp() {
			case 1:
				if f := OnWouldBlock; f != nil {
					f(site) // the panic below may be swallowed (fmt recovers panics of String methods)
				}
				panic(WouldBlock{Site: site})
			case 2:
				return
			}
		}
		h(KindLockWait, site)
	}
}

func probe(m any, read bool) bool {
	switch x := m.(type) {
	case *sync.Mutex:
		if x.TryLock() {
			x.Unlock()
			return true
		}
		return false
	case *sync.RWMutex:
		if read {
			if x.TryRLock() {
				x.RUnlock()
				return true
			}
			return false
		}
		if x.TryLock() {
			x.Unlock()
			return true
		}
		return false
	}
	switch x := m.(type) {
	case *sync.Once:
		return probeOnce(x)
	case **sync.Once:
		if x == nil || *x == nil {
			return true
		}
		return probeOnce(*x)
	}
	// generic: pointer (possibly to pointer / interface) to something with TryLock
	v := reflect.ValueOf(m)
	for i := 0; i < 3 && v.IsValid(); i++ {
		tryName, unName := "TryLock", "Unlock"
		if read {
			tryName, unName = "TryRLock", "RUnlock"
		}
		if v.Kind() == reflect.Interface || v.Kind() == reflect.Pointer {
			if v.IsNil() {
				return true
			}
		}
		if t := v.MethodByName(tryName); t.IsValid() {
			u := v.MethodByName(unName)
			if !u.IsValid() {
				return true
			}
			res := t.Call(nil)
			if len(res) == 1 && res[0].Kind() == reflect.Bool {
				if res[0].Bool() {
					u.Call(nil)
					return true
				}
				return false
			}
			return true
		}
		if v.Kind() == reflect.Pointer || v.Kind() == reflect.Interface {
			v = v.Elem()
			continue
		}
		break
	}
	return true
}

// probeOnce: false while another goroutine is inside the Once's function (it holds the Once's internal mutex). The
// field is found by name through reflection; if the layout is not the expected one the probe is a no-op.
var onceMutexOffset = func() uintptr {
	f, ok := reflect.TypeOf(sync.Once{}).FieldByName("m")
	if !ok || f.Type != reflect.TypeOf(sync.Mutex{}) {
		return ^uintptr(0)
	}
	return f.Offset
}()

func probeOnce(o *sync.Once) bool {
	if onceMutexOffset == ^uintptr(0) {
		return true
	}
	mu := (*sync.Mutex)(unsafe.Add(unsafe.Pointer(o), onceMutexOffset))
	if mu.TryLock() {
		mu.Unlock()
		return true
	}
	return false
}
`

const accessSource = `// Code generated by verif-inst. DO NOT EDIT.

package limiter

import "sync/atomic"

// VerifInFlight exposes the limiter's in-flight gauge to the simulator's oracles (read-only).
func VerifInFlight(l *DefaultLimiter) int64 { return atomic.LoadInt64(l.inFlight) }

// VerifBacklogLen exposes the queue limiter's backlog length (read-only).
func VerifBacklogLen(l *QueueBlockingLimiter) int { return int(l.backlog.len()) }
`
