// check is the driver of the deterministic-simulation checks.
//
//	check <ID> [--tier quick|thorough] [--seed N] [--workers N] [--runs N] [--ms N] [--keep]
//	check <ID> --replay <file>
//	check selftest [IDs...]
//
// It copies /repo's working tree into a scratch directory, instruments it,
// builds the harness test binary against it (go1.26.8), fans out worker
// processes, merges their results into /verif/evidence/<ID>.json and applies
// /verif/known_findings.json. Exit 0 = property held on everything explored,
// 1 = violation (VIOLATION line printed), 2 = could not decide.
package main

import (
	"bytes"
	"crypto/sha256"
	"encoding/binary"
	"encoding/json"
	"fmt"
	"io"
	"os"
	"os/exec"
	"path/filepath"
	"runtime"
	"sort"
	"strconv"
	"strings"
	"sync"
	"time"
)

var (
	verifDir = "/verif"
	repoDir  = "/repo"
	goBin    = "go1.26.8"
)

type stats struct {
	Evaluations int            `json:"evaluations"`
	Nontrivial  int            `json:"nontrivial"`
	Steps       int64          `json:"steps"`
	Switches    int64          `json:"switches"`
	VirtS       float64        `json:"virtual_s"`
	Truncated   int            `json:"truncated"`
	Leaked      int            `json:"leaked_tasks"`
	Probes      map[string]int `json:"probes"`
	Faults      map[string]int `json:"faults"`
	PorcOK      int            `json:"porcupine_ok"`
	PorcIllegal int            `json:"porcupine_illegal"`
	PorcUnknown int            `json:"porcupine_unknown"`
}

type foundViol struct {
	Class    string `json:"class"`
	Key      string `json:"key"`
	Msg      string `json:"msg"`
	Replay   string `json:"replay"`
	RunSeed  uint64 `json:"run_seed"`
	RunIndex int    `json:"run_index"`
	Count    int    `json:"count"`
	Stable   bool   `json:"replay_stable"`
	TapeLen  int    `json:"tape_len"`
	OrigLen  int    `json:"orig_tape_len"`
	Attempts int    `json:"shrink_attempts"`
}

type meta struct {
	ID          string   `json:"id"`
	Rule        string   `json:"rule"`
	Real        []string `json:"real_components"`
	Stubs       []string `json:"stub_components"`
	Assumptions []string `json:"assumptions"`
	FaultKinds  []string `json:"fault_kinds"`
	QuickRuns   int      `json:"quick_runs_per_worker"`
	Expected    []string `json:"expected_probes"`
}

type workerOut struct {
	Property     string            `json:"property"`
	Seed         uint64            `json:"seed"`
	Worker       int               `json:"worker"`
	Stats        stats             `json:"stats"`
	Violations   []foundViol       `json:"violations"`
	Samples      []json.RawMessage `json:"samples"`
	Hashes       []string          `json:"hashes"`
	HashFile     string            `json:"hash_file"`
	WallS        float64           `json:"wall_s"`
	Leaked       int               `json:"leaked_bubbles"`
	StoppedEarly string            `json:"stopped_early,omitempty"`
	Error        string            `json:"error"`
	Meta         *meta             `json:"meta"`
}

type finding struct {
	Status    string `json:"status"` // known | fixed
	Property  string `json:"property"`
	Class     string `json:"class"`
	KeyPrefix string `json:"key_prefix"`
	What      string `json:"what"`
	Commit    string `json:"commit,omitempty"`
}

type findingsFile struct {
	Findings []finding `json:"findings"`
}

func die(code int, format string, a ...any) {
	fmt.Fprintf(os.Stderr, "check: "+format+"\n", a...)
	os.Exit(code)
}

func env() []string {
	e := os.Environ()
	e = append(e, "GOFLAGS=-mod=mod", "GOPROXY=off", "GOSUMDB=off", "GOTOOLCHAIN=local", "CGO_ENABLED=1")
	return e
}

// raceProps need the -race build of the harness.
var raceProps = map[string]bool{"C17": true}

func main() {
	if v := os.Getenv("VERIF_DIR"); v != "" {
		verifDir = v
	}
	if v := os.Getenv("VERIF_REPO"); v != "" {
		repoDir = v
	}
	args := os.Args[1:]
	if len(args) == 0 {
		die(2, "usage: check <ID>|selftest [--tier quick|thorough] [--replay file] [--seed N] [--workers N] [--runs N] [--ms N] [--keep]")
	}
	id := args[0]
	tier := os.Getenv("VERIF_TIER")
	if tier == "" {
		tier = "quick"
	}
	seed := uint64(1)
	if v := os.Getenv("VERIF_SEED"); v != "" {
		if n, err := strconv.ParseUint(v, 10, 64); err == nil {
			seed = n
		} else if n, err := strconv.ParseInt(v, 10, 64); err == nil {
			seed = uint64(n)
		}
	}
	workers, runs, ms := 0, 0, 0
	replay := ""
	keep := false
	var rest []string
	for i := 1; i < len(args); i++ {
		next := func() string {
			i++
			if i >= len(args) {
				die(2, "missing value for %s", args[i-1])
			}
			return args[i]
		}
		switch args[i] {
		case "--tier":
			tier = next()
		case "--seed":
			n, _ := strconv.ParseUint(next(), 10, 64)
			seed = n
		case "--workers":
			workers, _ = strconv.Atoi(next())
		case "--runs":
			runs, _ = strconv.Atoi(next())
		case "--ms":
			ms, _ = strconv.Atoi(next())
		case "--replay":
			replay = next()
		case "--keep":
			keep = true
		default:
			rest = append(rest, args[i])
		}
	}
	if tier != "quick" && tier != "thorough" {
		die(2, "bad tier %q", tier)
	}
	if id == "selftest" {
		os.Exit(selftest(rest, keep))
	}
	start := time.Now()
	work := filepath.Join(verifDir, ".work", fmt.Sprintf("%s-%s-%d", id, tier, os.Getpid()))
	defer func() {
		if !keep {
			os.RemoveAll(work)
		}
	}()
	code := runCheck(id, tier, seed, workers, runs, ms, replay, work, start)
	if !keep {
		os.RemoveAll(work)
	}
	os.Exit(code)
}

// prepare copies + instruments the repo and builds the harness binary.
func prepare(work string, race bool) (bin string, tree string, err error) {
	if err := os.MkdirAll(work, 0o755); err != nil {
		return "", "", err
	}
	inst := filepath.Join(verifDir, "bin", "verif-inst")
	out, e := exec.Command(inst, "-q", "-src", repoDir, "-dst", filepath.Join(work, "repo")).CombinedOutput()
	if e != nil {
		return "", "", fmt.Errorf("instrumenter failed: %v\n%s", e, out)
	}
	tree = fingerprint(repoDir)
	// harness sources
	hdst := filepath.Join(work, "harness")
	if err := os.MkdirAll(hdst, 0o755); err != nil {
		return "", "", err
	}
	ents, err := os.ReadDir(filepath.Join(verifDir, "harness"))
	if err != nil {
		return "", "", err
	}
	for _, en := range ents {
		if en.IsDir() || !strings.HasSuffix(en.Name(), ".go") {
			continue
		}
		b, err := os.ReadFile(filepath.Join(verifDir, "harness", en.Name()))
		if err != nil {
			return "", "", err
		}
		if err := os.WriteFile(filepath.Join(hdst, en.Name()), b, 0o644); err != nil {
			return "", "", err
		}
	}
	gomod := "module verifharness\n\ngo 1.26.8\n\nrequire (\n\tgithub.com/platinummonkey/go-concurrency-limits v0.0.0\n\tgithub.com/anishathalye/porcupine v1.3.0\n)\n\nreplace github.com/platinummonkey/go-concurrency-limits => ../repo\n"
	if err := os.WriteFile(filepath.Join(hdst, "go.mod"), []byte(gomod), 0o644); err != nil {
		return "", "", err
	}
	sum, _ := os.ReadFile(filepath.Join(repoDir, "go.sum"))
	extra, _ := os.ReadFile(filepath.Join(verifDir, "harness", "go.sum.extra"))
	if err := os.WriteFile(filepath.Join(hdst, "go.sum"), append(sum, extra...), 0o644); err != nil {
		return "", "", err
	}
	bin = filepath.Join(work, "h.test")
	bargs := []string{"test", "-trimpath", "-c", "-o", bin}
	if race {
		bargs = append(bargs, "-race")
	}
	bargs = append(bargs, ".")
	cmd := exec.Command(goBin, bargs...)
	cmd.Dir = hdst
	cmd.Env = env()
	out, e = cmd.CombinedOutput()
	if e != nil {
		return "", "", fmt.Errorf("build of the harness against the instrumented tree failed: %v\n%s", e, out)
	}
	return bin, tree, nil
}

func fingerprint(dir string) string {
	h := sha256.New()
	var files []string
	filepath.Walk(dir, func(p string, info os.FileInfo, err error) error {
		if err != nil {
			return nil
		}
		if info.IsDir() {
			if strings.HasPrefix(info.Name(), ".") && p != dir {
				return filepath.SkipDir
			}
			return nil
		}
		if strings.HasSuffix(p, ".go") && !strings.HasSuffix(p, "_test.go") || strings.HasSuffix(p, "go.mod") {
			files = append(files, p)
		}
		return nil
	})
	sort.Strings(files)
	for _, f := range files {
		rel, _ := filepath.Rel(dir, f)
		io.WriteString(h, rel+"\n")
		b, _ := os.ReadFile(f)
		h.Write(b)
	}
	return fmt.Sprintf("%x", h.Sum(nil))[:16]
}

func runWorker(bin, work string, id string, seed uint64, w, n int, extra []string, gomaxprocs int) (*workerOut, string, error) {
	outPath := filepath.Join(work, fmt.Sprintf("w%d.json", w))
	cmd := exec.Command(bin, "-test.run", "^TestWorker$", "-test.timeout", "0", "-test.cpu", "1")
	cmd.Dir = work
	e := append(env(),
		"VERIF_PROP="+id,
		"VERIF_SEED="+strconv.FormatUint(seed, 10),
		"VERIF_WORKER="+strconv.Itoa(w),
		"VERIF_WORKERS="+strconv.Itoa(n),
		"VERIF_OUT="+outPath,
		"VERIF_REPLAYS_DIR="+filepath.Join(work, "replays"),
		"GODEBUG=randseednop=0",
		"VERIF_RACE_LOG="+filepath.Join(work, fmt.Sprintf("race-w%d", w)),
		"GORACE=halt_on_error=0 log_path="+filepath.Join(work, fmt.Sprintf("race-w%d", w))+" suppress_equal_stacks=0 suppress_equal_addresses=0 exitcode=0",
	)
	os.MkdirAll(filepath.Join(work, "replays"), 0o755)
	if gomaxprocs > 0 {
		e = append(e, "GOMAXPROCS="+strconv.Itoa(gomaxprocs))
	}
	e = append(e, extra...)
	cmd.Env = e
	var stderr, stdout bytes.Buffer
	cmd.Stderr = &stderr
	cmd.Stdout = &stdout
	err := cmd.Run()
	logs := stdout.String() + stderr.String()
	if err != nil {
		return nil, logs, fmt.Errorf("worker %d: %v", w, err)
	}
	b, rerr := os.ReadFile(outPath)
	if rerr != nil {
		return nil, logs, fmt.Errorf("worker %d wrote no output: %v", w, rerr)
	}
	var wo workerOut
	if jerr := json.Unmarshal(b, &wo); jerr != nil {
		return nil, logs, fmt.Errorf("worker %d output unreadable: %v", w, jerr)
	}
	return &wo, logs, nil
}

func loadFindings() []finding {
	b, err := os.ReadFile(filepath.Join(verifDir, "known_findings.json"))
	if err != nil {
		return nil
	}
	var ff findingsFile
	if err := json.Unmarshal(b, &ff); err != nil {
		die(2, "known_findings.json unreadable: %v", err)
	}
	return ff.Findings
}

func runCheck(id, tier string, seed uint64, workers, runs, ms int, replay, work string, start time.Time) int {
	race := raceProps[id]
	bin, tree, err := prepare(work, race)
	if err != nil {
		fmt.Fprintln(os.Stderr, "check: "+err.Error())
		return 2
	}
	buildS := time.Since(start).Seconds()
	os.MkdirAll(filepath.Join(verifDir, "replays"), 0o755)
	os.MkdirAll(filepath.Join(verifDir, "evidence"), 0o755)

	if replay != "" {
		if abs, err := filepath.Abs(replay); err == nil {
			replay = abs
		}
		rtier := tier
		if rb, err := os.ReadFile(replay); err == nil {
			var rf struct {
				Tier string `json:"tier"`
			}
			if json.Unmarshal(rb, &rf) == nil && rf.Tier != "" {
				rtier = rf.Tier
			}
		}
		cmd := exec.Command(bin, "-test.run", "^TestWorker$", "-test.timeout", "0", "-test.cpu", "1")
		cmd.Dir = work
		resPath := filepath.Join(work, "replay.json")
		cmd.Env = append(env(), "VERIF_PROP="+id, "VERIF_REPLAY="+replay, "VERIF_OUT="+resPath, "VERIF_TIER="+rtier, "GODEBUG=randseednop=0",
			"VERIF_RACE_LOG="+filepath.Join(work, "race-replay"),
			"GORACE=halt_on_error=0 log_path="+filepath.Join(work, "race-replay")+" suppress_equal_stacks=0 suppress_equal_addresses=0 exitcode=0")
		var rlog bytes.Buffer
		cmd.Stdout = io.MultiWriter(os.Stdout, &rlog)
		cmd.Stderr = io.MultiWriter(os.Stderr, &rlog)
		if err := cmd.Run(); err != nil {
			if _, handled := libraryPanicLine(rlog.String()); handled {
				// a recorded library panic reproduced: the replay process died the same way
				fmt.Printf("VIOLATION property=%s replay=%s\n", id, replay)
				return 1
			}
			fmt.Fprintln(os.Stderr, "check: replay process failed:", err)
			return 2
		}
		b, _ := os.ReadFile(resPath)
		var res map[string]any
		json.Unmarshal(b, &res)
		if res["class"] != nil {
			if res["class"] == res["expected_class"] && res["hash"] == res["expected_hash"] {
				fmt.Printf("VIOLATION property=%s replay=%s\n", id, replay)
				return 1
			}
			fmt.Printf("check: replay produced class=%v hash=%v, recorded class=%v hash=%v\n", res["class"], res["hash"], res["expected_class"], res["expected_hash"])
			fmt.Printf("VIOLATION property=%s replay=%s\n", id, replay)
			return 1
		}
		fmt.Printf("check: replay of %s did not reproduce a violation on this tree\n", replay)
		return 0
	}

	if workers == 0 {
		workers = 8
		if tier == "thorough" {
			workers = runtime.NumCPU()
		}
		if workers > runtime.NumCPU() {
			workers = runtime.NumCPU()
		}
	}
	var extra []string
	effectiveTier = tier
	extra = append(extra, "VERIF_TIER="+tier, "VERIF_TREE="+tree)
	if runs > 0 {
		extra = append(extra, "VERIF_RUNS="+strconv.Itoa(runs))
	}
	if ms == 0 && tier == "thorough" {
		ms = 600000
		if v := os.Getenv("VERIF_THOROUGH_MS"); v != "" {
			ms, _ = strconv.Atoi(v)
		}
	}
	if ms > 0 {
		extra = append(extra, "VERIF_MS="+strconv.Itoa(ms))
	}

	// determinism probe: the first runs of worker 0 are executed twice more in
	// fresh processes under other GOMAXPROCS values; event-log hashes must agree.
	detRuns := 40
	nondetMsg := ""
	var detHashes [][]string
	{
		var wg sync.WaitGroup
		res := make([][]string, 3)
		errs := make([]error, 3)
		logsA := make([]string, 3)
		for k, gmp := range []int{1, 4, 16} {
			wg.Add(1)
			go func(k, gmp int) {
				defer wg.Done()
				dw := filepath.Join(work, fmt.Sprintf("det%d", k))
				os.MkdirAll(dw, 0o755)
				wo, logs, err := runWorker(bin, dw, id, seed, 0, workers, []string{"VERIF_RUNS=" + strconv.Itoa(detRuns), "VERIF_HASHES=1", "VERIF_MAX_SIGS=0", "VERIF_TIER=" + tier}, gmp)
				logsA[k] = logs
				if err != nil {
					errs[k] = err
					return
				}
				res[k] = wo.Hashes
			}(k, gmp)
		}
		wg.Wait()
		for k := range errs {
			if errs[k] != nil {
				if code, handled := crashVerdict(id, logsA[k], work); handled {
					return code
				}
				fmt.Fprintf(os.Stderr, "check: determinism probe failed: %v\n%s\n", errs[k], tail(logsA[k], 4000))
				return 2
			}
		}
		detHashes = res
		for k := 1; k < 3; k++ {
			if strings.Join(res[k], ",") != strings.Join(res[0], ",") {
				nondetMsg = fmt.Sprintf("NONDETERMINISM: event-log hashes of %d runs differ between processes (GOMAXPROCS 1 vs %d)", detRuns, []int{1, 4, 16}[k])
				for i := range res[0] {
					if i < len(res[k]) && res[0][i] != res[k][i] {
						nondetMsg += fmt.Sprintf("; first difference at run %d: %s vs %s", i, res[0][i], res[k][i])
						break
					}
				}
				// The tree under test contains a source of nondeterminism the simulator does not control (known one:
				// two timers due in the same virtual instant feeding one select - the Go runtime randomises their
				// order inside a bubble). Every run is still a real execution judged by a sound oracle, so the
				// exploration goes on; but only violations whose minimised tape replayed identically twice are
				// reported, and without such a violation the check refuses to certify anything (exit 2).
				fmt.Fprintf(os.Stderr, "check: %s; continuing, only replay-stable violations will be reported\n", nondetMsg)
				break
			}
		}
	}

	outs := make([]*workerOut, workers)
	logsW := make([]string, workers)
	errsW := make([]error, workers)
	var wg sync.WaitGroup
	for w := 0; w < workers; w++ {
		wg.Add(1)
		go func(w int) {
			defer wg.Done()
			outs[w], logsW[w], errsW[w] = runWorker(bin, work, id, seed, w, workers, extra, 0)
		}(w)
	}
	wg.Wait()
	for w := range errsW {
		if errsW[w] != nil {
			if code, handled := crashVerdict(id, logsW[w], work); handled {
				return code
			}
			fmt.Fprintf(os.Stderr, "check: %v\n%s\n", errsW[w], tail(logsW[w], 6000))
			return 2
		}
	}

	// merge
	var tot stats
	tot.Probes, tot.Faults = map[string]int{}, map[string]int{}
	distinct := map[uint64]struct{}{}
	var samples []json.RawMessage
	var viols []foundViol
	leakedBubbles := 0
	var stoppedEarly []string
	var m *meta
	for _, o := range outs {
		if o.Error != "" {
			fmt.Fprintf(os.Stderr, "check: worker %d: %s\n", o.Worker, o.Error)
			return 2
		}
		m = o.Meta
		tot.Evaluations += o.Stats.Evaluations
		tot.Nontrivial += o.Stats.Nontrivial
		tot.Steps += o.Stats.Steps
		tot.Switches += o.Stats.Switches
		tot.VirtS += o.Stats.VirtS
		tot.Truncated += o.Stats.Truncated
		tot.Leaked += o.Stats.Leaked
		tot.PorcOK += o.Stats.PorcOK
		tot.PorcIllegal += o.Stats.PorcIllegal
		tot.PorcUnknown += o.Stats.PorcUnknown
		for k, v := range o.Stats.Probes {
			tot.Probes[k] += v
		}
		for k, v := range o.Stats.Faults {
			tot.Faults[k] += v
		}
		leakedBubbles += o.Leaked
		if o.StoppedEarly != "" {
			stoppedEarly = append(stoppedEarly, fmt.Sprintf("worker %d stopped %s", o.Worker, o.StoppedEarly))
		}
		if len(samples) < 4 {
			for _, s := range o.Samples {
				if len(samples) < 4 {
					samples = append(samples, s)
				}
			}
		}
		viols = append(viols, o.Violations...)
		if b, err := os.ReadFile(o.HashFile); err == nil {
			for i := 0; i+8 <= len(b); i += 8 {
				distinct[binary.LittleEndian.Uint64(b[i:])] = struct{}{}
			}
		}
	}
	wall := time.Since(start).Seconds()

	// classify violations against known findings
	findings := loadFindings()
	type sigAgg struct {
		v     foundViol
		count int
	}
	bySig := map[string]*sigAgg{}
	var sigOrder []string
	for _, v := range viols {
		s := v.Class + "|" + v.Key
		if a, ok := bySig[s]; ok {
			a.count += v.Count
			if v.TapeLen < a.v.TapeLen && v.Stable {
				a.v = v
			}
			continue
		}
		bySig[s] = &sigAgg{v: v, count: v.Count}
		sigOrder = append(sigOrder, s)
	}
	sort.Strings(sigOrder)
	// keep only the replay files that are reported (one per signature), under /verif/replays
	if old, _ := filepath.Glob(filepath.Join(verifDir, "replays", id+"-*")); true {
		for _, f := range old {
			os.Remove(f)
		}
	}
	for _, sg := range sigOrder {
		a := bySig[sg]
		if a.v.Replay == "" {
			continue
		}
		dst := filepath.Join(verifDir, "replays", filepath.Base(a.v.Replay))
		if b, err := os.ReadFile(a.v.Replay); err == nil {
			if err := os.WriteFile(dst, b, 0o644); err == nil {
				a.v.Replay = dst
			}
		}
	}
	knownHit := map[int]int{}
	var unknown []*sigAgg
	unstable := 0
	for _, s := range sigOrder {
		a := bySig[s]
		matched := false
		for i, f := range findings {
			if f.Status == "known" && f.Property == id && f.Class == a.v.Class && strings.HasPrefix(a.v.Key, f.KeyPrefix) {
				knownHit[i] += a.count
				matched = true
				break
			}
		}
		if !matched {
			unknown = append(unknown, a)
			if !a.v.Stable {
				unstable++
			}
		}
	}
	var knownLines []string
	for i, f := range findings {
		if f.Status == "known" && f.Property == id {
			line := fmt.Sprintf("KNOWN-FINDING: property=%s class=%s key=%s* %s (observed in %d runs of this check)", id, f.Class, f.KeyPrefix, f.What, knownHit[i])
			knownLines = append(knownLines, line)
			fmt.Println(line)
		}
	}

	var neverHit []string
	if m != nil {
		for _, p := range m.Expected {
			if _, ok := tot.Probes[p]; !ok {
				tot.Probes[p] = 0
				neverHit = append(neverHit, p)
			}
		}
	}
	ruleText := ""
	var real, stubs, assumptions, faultKinds []string
	if m != nil {
		ruleText, real, stubs, assumptions, faultKinds = m.Rule, m.Real, m.Stubs, m.Assumptions, m.FaultKinds
	}
	if assumptions == nil {
		assumptions = []string{}
	}
	assumptions = append(assumptions, "sampling (seeded search), not enumeration: a clean batch is evidence, not proof", "the instrumented scratch copy differs from the shipped tree only by inserted inert scheduling-point calls and one generated accessor file")
	if len(samples) == 0 {
		samples = append(samples, json.RawMessage(`{"note":"no non-trivial run was sampled"}`))
	}
	violSummaries := []map[string]any{}
	for _, a := range unknown {
		violSummaries = append(violSummaries, map[string]any{"class": a.v.Class, "key": a.v.Key, "msg": a.v.Msg, "replay": a.v.Replay, "runs": a.count, "replay_stable": a.v.Stable, "tape_len": a.v.TapeLen})
	}
	ev := map[string]any{
		"property_id": id,
		"tier":        tier,
		"seed":        int64(seed & 0x7fffffffffffffff),
		"level":       "exploration",
		"coverage": map[string]any{
			"evaluations":                           tot.Evaluations,
			"distinct_nontrivial":                   len(distinct),
			"nontrivial_runs":                       tot.Nontrivial,
			"rule":                                  ruleText,
			"samples":                               samples,
			"scheduling_steps":                      tot.Steps,
			"context_switches":                      tot.Switches,
			"simulated_time_s":                      tot.VirtS,
			"truncated_runs":                        tot.Truncated,
			"tasks_left_blocked_after_drain":        tot.Leaked,
			"bubbles_ended_with_blocked_goroutines": leakedBubbles,
			"reach_probes":                          tot.Probes,
			"reach_probes_never_hit":                neverHit,
			"faults_fired":                          tot.Faults,
			"fault_kinds":                           faultKinds,
			"porcupine":                             map[string]int{"ok": tot.PorcOK, "illegal": tot.PorcIllegal, "unknown_timeout": tot.PorcUnknown},
			"runs_per_hour":                         float64(tot.Evaluations) / wall * 3600,
			"workers":                               workers,
			"worker_seeds":                          fmt.Sprintf("run i of worker w uses splitmix(mix(%d, hash(%q), w, i))", seed, id),
			"real_components":                       real,
			"stub_components":                       stubs,
			"determinism_probe":                     detText(nondetMsg, len(detHashes[0])),
			"tree_fingerprint":                      tree,
			"build_s":                               buildS,
			"known_finding_lines":                   knownLines,
			"violations_found":                      violSummaries,
			"race_build":                            race,
		},
		"assumptions": assumptions,
		"wall_s":      wall,
		"violations":  len(unknown),
	}
	b, _ := json.MarshalIndent(ev, "", " ")
	evPath := filepath.Join(verifDir, "evidence", id+".json")
	if err := os.WriteFile(evPath, b, 0o644); err != nil {
		fmt.Fprintln(os.Stderr, "check: cannot write evidence:", err)
		return 2
	}
	fmt.Printf("check %s tier=%s seed=%d: %d runs (%d non-trivial, %d distinct), %d steps, %.0f simulated s, %.1fs wall (%.1fs build), %d workers\n",
		id, tier, seed, tot.Evaluations, tot.Nontrivial, len(distinct), tot.Steps, tot.VirtS, wall, buildS, workers)
	if nondetMsg != "" {
		var stable []*sigAgg
		for _, a := range unknown {
			if a.v.Stable {
				stable = append(stable, a)
			}
		}
		if len(stable) == 0 {
			fmt.Fprintf(os.Stderr, "check: %s; no replay-stable violation found: refusing to decide\n", nondetMsg)
			return 2
		}
		unknown = stable
	}
	if len(unknown) > 0 {
		for _, m := range stoppedEarly {
			fmt.Printf("  note: %s\n", m)
		}
		for _, a := range unknown {
			fmt.Printf("  violation class=%s key=%s runs=%d stable_replay=%v\n    %s\n", a.v.Class, a.v.Key, a.count, a.v.Stable, a.v.Msg)
			fmt.Printf("VIOLATION property=%s replay=%s\n", id, a.v.Replay)
		}
		return 1
	}
	if len(stoppedEarly) > 0 {
		for _, m := range stoppedEarly {
			fmt.Fprintf(os.Stderr, "check: %s\n", m)
		}
		fmt.Fprintf(os.Stderr, "check: the exploration budget was not completed and no violation was found: refusing to report success\n")
		return 2
	}
	if len(distinct) < 2 {
		fmt.Fprintf(os.Stderr, "check: fewer than 2 distinct non-trivial runs — the workload did not reach the property; refusing to report success\n")
		return 2
	}
	return 0
}

// crashVerdict: a Go runtime fatal error in a worker (e.g. concurrent map
// writes) is a violation for C17, harness trouble otherwise.
var effectiveTier = "quick"

func detText(nondet string, n int) string {
	if nondet != "" {
		return "FAILED: " + nondet
	}
	return fmt.Sprintf("%d runs x 3 fresh processes (GOMAXPROCS 1/4/16): identical event-log hashes", n)
}

func crashVerdict(id, logs, work string) (int, bool) {
	if code, handled := libraryPanicVerdict(id, logs, work); handled {
		return code, true
	}
	if id != "C17" {
		return 0, false
	}
	if strings.Contains(logs, "fatal error: concurrent map") {
		path := filepath.Join(verifDir, "replays", fmt.Sprintf("%s-crash-%d.txt", id, os.Getpid()))
		os.WriteFile(path, []byte(tail(logs, 20000)), 0o644)
		fmt.Printf("  runtime crash: concurrent map access\nVIOLATION property=%s replay=%s\n", id, path)
		return 1, true
	}
	return 0, false
}

// libraryPanicVerdict: the worker died from an unrecovered panic whose goroutine was executing the
// library under test (first frame below the runtime's panic machinery is in the library's module, not
// in the harness): typically a goroutine the library or a third-party runtime spawned (registry poller,
// subscription helper, gRPC server handler), where the harness cannot recover. No property holds for a
// call that takes the process down: reported as a violation with a run-seed replay file.
func libraryPanicVerdict(id, logs, work string) (int, bool) {
	rest, ok := libraryPanicLine(logs)
	if !ok {
		return 0, false
	}
	msg := firstLineOf(rest)
	return reportLibraryPanic(id, rest, msg, work)
}

// libraryPanicLine returns the panic report (from its "panic: " line on) if the panicking goroutine was
// executing the library under test.
func libraryPanicLine(logs string) (string, bool) {
	idx := strings.Index(logs, "\npanic: ")
	if idx < 0 {
		if !strings.HasPrefix(logs, "panic: ") {
			return "", false
		}
		idx = -1
	}
	rest := logs[idx+1:]
	lines := strings.Split(rest, "\n")
	const lib = "github.com/platinummonkey/go-concurrency-limits/"
	inLib := false
	seenG := false
	for _, l := range lines[1:] {
		if strings.HasPrefix(l, "goroutine ") {
			if seenG {
				break // only the panicking goroutine (printed first)
			}
			seenG = true
			continue
		}
		if !seenG || l == "" || strings.HasPrefix(l, "\t") || strings.HasPrefix(l, "[signal") {
			continue
		}
		if strings.HasPrefix(l, "panic(") || strings.HasPrefix(l, "runtime.") || strings.HasPrefix(l, "sync.") || strings.HasPrefix(l, "sync/atomic.") || strings.HasPrefix(l, "internal/") {
			continue
		}
		inLib = strings.HasPrefix(l, lib) && !strings.HasPrefix(l, lib+"verifsim.")
		break
	}
	return rest, inLib
}

func reportLibraryPanic(id, rest, msg, work string) (int, bool) {
	// which run was executing
	var runSeed uint64
	var runIdx, worker int
	found := false
	matches, _ := filepath.Glob(filepath.Join(work, "*.json.cur"))
	dets, _ := filepath.Glob(filepath.Join(work, "det*", "*.json.cur"))
	for _, f := range append(matches, dets...) {
		// the crashed worker left no output file
		if _, err := os.Stat(strings.TrimSuffix(f, ".cur")); err == nil {
			continue
		}
		b, err := os.ReadFile(f)
		if err != nil {
			continue
		}
		if _, err := fmt.Sscanf(string(b), "%d %d", &runSeed, &runIdx); err == nil {
			fmt.Sscanf(filepath.Base(f), "w%d.json.cur", &worker)
			found = true
			break
		}
	}
	path := filepath.Join(verifDir, "replays", fmt.Sprintf("%s-crash-%d.json", id, os.Getpid()))
	rf := map[string]any{"property": id, "violation_class": "library-panic", "key": firstLineOf(msg), "message": tail(rest, 6000),
		"worker": worker, "run": runIdx, "run_seed": runSeed, "tape": []uint64{}, "event_log_hash": "", "tier": effectiveTier}
	jb, _ := json.MarshalIndent(rf, "", " ")
	os.WriteFile(path, jb, 0o644)
	fmt.Printf("  violation class=library-panic key=%s (the worker process died; run seed known=%v)\n    %s\n", firstLineOf(msg), found, msg)
	fmt.Printf("VIOLATION property=%s replay=%s\n", id, path)
	return 1, true
}

func firstLineOf(s string) string {
	if i := strings.IndexByte(s, '\n'); i >= 0 {
		s = s[:i]
	}
	if len(s) > 120 {
		s = s[:120]
	}
	return s
}

func tail(s string, n int) string {
	if len(s) <= n {
		return s
	}
	return "...\n" + s[len(s)-n:]
}

// selftest: determinism of every property's driver on a larger sample.
func selftest(ids []string, keep bool) int {
	if len(ids) == 0 {
		ids = []string{"C01", "C02", "C03", "C04", "C05", "C06", "C07", "C08", "C09", "C10", "C11", "C12", "C13", "C14", "C15", "C16", "C18", "C19", "C20"}
	}
	work := filepath.Join(verifDir, ".work", fmt.Sprintf("selftest-%d", os.Getpid()))
	defer func() {
		if !keep {
			os.RemoveAll(work)
		}
	}()
	bin, _, err := prepare(work, false)
	if err != nil {
		fmt.Fprintln(os.Stderr, "check: "+err.Error())
		return 2
	}
	bad := 0
	for _, id := range ids {
		type res struct {
			h    []string
			err  error
			logs string
		}
		procs := []int{1, 4, 16, 1, 4, 16}
		rs := make([]res, len(procs))
		var wg sync.WaitGroup
		for k, gmp := range procs {
			wg.Add(1)
			go func(k, gmp int) {
				defer wg.Done()
				dw := filepath.Join(work, fmt.Sprintf("%s-%d", id, k))
				os.MkdirAll(dw, 0o755)
				wo, logs, err := runWorker(bin, dw, id, 7, 0, 1, []string{"VERIF_RUNS=150", "VERIF_HASHES=1", "VERIF_MAX_SIGS=0"}, gmp)
				rs[k].err, rs[k].logs = err, logs
				if wo != nil {
					rs[k].h = wo.Hashes
				}
			}(k, gmp)
		}
		wg.Wait()
		ok := true
		for k := range rs {
			if rs[k].err != nil {
				fmt.Printf("selftest %s: worker failed: %v\n%s\n", id, rs[k].err, tail(rs[k].logs, 2000))
				ok = false
				break
			}
			if strings.Join(rs[k].h, ",") != strings.Join(rs[0].h, ",") {
				ok = false
				fmt.Printf("selftest %s: hashes differ between process 0 and %d\n", id, k)
			}
		}
		if ok {
			fmt.Printf("selftest %s: %d runs x %d processes identical\n", id, len(rs[0].h), len(procs))
		} else {
			bad++
		}
	}
	if bad > 0 {
		return 2
	}
	return 0
}
