package harness

import (
	"context"
	"fmt"
	"sync"
	"time"

	"github.com/anishathalye/porcupine"
	"github.com/platinummonkey/go-concurrency-limits/core"
	"github.com/platinummonkey/go-concurrency-limits/limit"
	"github.com/platinummonkey/go-concurrency-limits/limiter"
	"github.com/platinummonkey/go-concurrency-limits/strategy"
)

// C01 — admission is an atomic gate (linearizable against a counting gate).
func init() {
	Register(&Prop{
		ID: "C01", Bubble: true, Run: runC01, QuickRuns: 2500,
		ExpectedProbes: []string{"acquire_refused", "limit_changed_while_running"},
		Rule: "one run = one seeded scenario (DefaultLimiter over simple/precise strategy with a scripted limit trajectory or AIMD/Vegas, or the precise strategy alone with direct SetLimit calls; 2..6 caller tasks, 1..4 acquire/hold/complete rounds each, sample windows closing concurrently) under one seeded schedule; " +
			"the recorded history (Acquire results, completions, SetLimit calls captured by a recording strategy proxy, stamped with scheduler step numbers) is checked with porcupine against the sequential counting gate {count, limit}; " +
			"non-trivial = at least two operations overlapped in the history and at least one Acquire was refused or a limit change happened while tokens were outstanding; distinct = distinct event hashes",
		Real:       []string{"limiter.DefaultLimiter", "strategy.SimpleStrategy", "strategy.PreciseStrategy", "limit.AIMDLimit", "limit.VegasLimit", "limit.FixedLimit", "measurements.ImmutableSampleWindow"},
		Stubs:      []string{"scripted core.Limit (trajectory incl. 0, negatives, repeats, jumps)", "recording core.Strategy proxy (forwards to the real strategy)", "logger"},
		FaultKinds: []string{"F-preempt", "F-outcome", "F-limit"},
		Assumptions: []string{"scheduling points at locks/atomics/channel operations; code between two points runs atomically w.r.t. other tasks",
			"porcupine timeouts are counted inconclusive, never reported"},
	})
}

// scriptLimit: a core.Limit whose estimate follows a generated trajectory; one step per OnSample.
type scriptLimit struct {
	mu        sync.Mutex
	vals      []int
	idx       int
	cur       int
	samples   int
	onSample  func(rtt int64, inFlight int, drop bool)
	listeners []core.LimitChangeListener
}

func (l *scriptLimit) EstimatedLimit() int {
	l.mu.Lock()
	defer l.mu.Unlock()
	return l.cur
}
func (l *scriptLimit) NotifyOnChange(c core.LimitChangeListener) {
	l.mu.Lock()
	l.listeners = append(l.listeners, c)
	l.mu.Unlock()
}
func (l *scriptLimit) OnSample(startTime int64, rtt int64, inFlight int, didDrop bool) {
	l.mu.Lock()
	l.samples++
	if l.idx < len(l.vals) {
		l.cur = l.vals[l.idx]
		l.idx++
	}
	cb := l.onSample
	l.mu.Unlock()
	if cb != nil {
		cb(rtt, inFlight, didDrop)
	}
}

// recStrategy forwards to a real strategy and records SetLimit calls with the
// operation (of the calling task) they happened in.
type recStrategy struct {
	inner core.Strategy
	s     *Sched
	mu    sync.Mutex
	sets  []setRec
	nSets int
}

type setRec struct {
	v  int
	op *OpRec
}

func (p *recStrategy) TryAcquire(ctx context.Context) (core.StrategyToken, bool) {
	return p.inner.TryAcquire(ctx)
}

//go:norace
func (p *recStrategy) SetLimit(v int) {
	var op *OpRec
	if p.s != nil {
		if t := p.s.lookup(goid()); t != nil {
			op = t.curOp
		}
	}
	p.mu.Lock()
	p.sets = append(p.sets, setRec{v: v, op: op})
	p.nSets++
	p.mu.Unlock()
	p.inner.SetLimit(v)
}

type gateState struct{ count, limit int }
type gateIn struct {
	kind int // 0 acquire, 1 release, 2 setlimit
	v    int
}

var gateModel = porcupine.Model{
	Init: func() interface{} { return gateState{} },
	Step: func(state, input, output interface{}) (bool, interface{}) {
		st := state.(gateState)
		in := input.(gateIn)
		switch in.kind {
		case 0:
			ok := output.(bool)
			if ok {
				if st.count < st.limit {
					st.count++
					return true, st
				}
				return false, st
			}
			return st.count >= st.limit, st
		case 1:
			st.count--
			return st.count >= 0, st
		default:
			v := in.v
			if v < 1 {
				v = 1
			}
			st.limit = v
			return true, st
		}
	},
	Equal: func(a, b interface{}) bool { return a.(gateState) == b.(gateState) },
	DescribeOperation: func(input, output interface{}) string {
		in := input.(gateIn)
		switch in.kind {
		case 0:
			return fmt.Sprintf("acquire -> %v", output)
		case 1:
			return "release"
		}
		return fmt.Sprintf("setlimit(%d)", in.v)
	},
}

func runC01(r *Run) {
	t := r.T
	mode := t.Pick([]int{5, 2, 2, 3}, "mode") // 0 default+script, 1 default+AIMD, 2 default+Vegas, 3 precise alone
	stratKind := []string{"simple", "precise"}[t.Intn(2, "strategy")]
	if mode == 3 {
		stratKind = "precise"
	}
	nTasks := 2 + t.Intn(scale(5, 7), "tasks")
	initial := 1 + t.Intn(4, "initial-limit")
	if t.Chance(10, "big-limit") {
		initial = 5 + t.Intn(36, "big")
	}
	s := r.NewSched()
	s.LagPct = []int{0, 0, 15}[t.Intn(3, "lag-pct")] // F-lag is safe here: no select-based blocking in these stacks
	var inner core.Strategy
	var simple *strategy.SimpleStrategy
	var precise *strategy.PreciseStrategy
	if stratKind == "simple" {
		simple = strategy.NewSimpleStrategy(initial)
		inner = simple
	} else {
		precise = strategy.NewPreciseStrategy(initial)
		inner = precise
	}
	rec := &recStrategy{inner: inner, s: s}
	var lim core.Limit
	var script *scriptLimit
	var settable *limit.SettableLimit
	type outsideSet struct {
		after time.Duration
		v     int
	}
	var outside []outsideSet
	switch mode {
	case 0:
		n := 1 + t.Intn(8, "traj-len")
		script = &scriptLimit{cur: initial}
		for i := 0; i < n; i++ {
			v := []int{1, 2, 3, 0, -3, 4, 6, initial, 40, 65536, 70000}[t.Intn(11, "traj")] // (also limits beyond 16 bits)
			script.vals = append(script.vals, v)
		}
		lim = script
		if t.Chance(25, "settable-limit") {
			settable = limit.NewSettableLimit("settable", initial, nil)
			lim = settable
		}
		// the estimate is also changed from outside the limiter (an operator, another limiter sharing the limit):
		// what the gate enforces is what the strategy was last told, at the close of a window
		if settable != nil || t.Chance(35, "limit-set-from-outside") {
			for i, n := 0, 1+t.Intn(3, "outside-sets"); i < n; i++ {
				outside = append(outside, outsideSet{after: []time.Duration{0, 1, 2, 1000, 2000000}[t.Intn(5, "outside-after")], v: []int{1, 2, 0, 3, 6, -1, 40}[t.Intn(7, "outside-v")]})
			}
		}
	case 1:
		lim = limit.NewAIMDLimit("aimd", initial, []float64{0.5, 0.9, 0.25}[t.Intn(3, "backoff")], 1+t.Intn(2, "inc"), nil)
	case 2:
		lim = limit.NewDefaultVegasLimitWithLimit("vegas", initial, nopLogger{}, nil)
	}
	r.Mixf("C01 mode=%d strategy=%s tasks=%d initial=%d traj=%v", mode, stratKind, nTasks, initial, func() []int {
		if script != nil {
			return script.vals
		}
		return nil
	}())

	var dl *limiter.DefaultLimiter
	if mode != 3 {
		var err error
		dl, err = limiter.NewDefaultLimiter(lim, 1, 1, 0, 10, rec, nopLogger{}, core.EmptyMetricRegistryInstance)
		if err != nil {
			r.Fail("harness", "build", "%v", err)
			return
		}
		// pre-phase: pump windowSize completions sequentially so the sample window is one completion from closing
		pump := 9 + t.Intn(3, "pump")
		for i := 0; i < pump; i++ {
			l, ok := dl.Acquire(bg)
			if !ok {
				r.Fail("refused-with-room", "prephase", "sequential acquire refused with no token outstanding (limit %d)", initial)
				return
			}
			time.Sleep(time.Duration(1+t.Intn(3, "pump-rtt")) * time.Nanosecond)
			l.OnSuccess()
		}
	} else {
		rec.SetLimit(initial)
	}
	preSets := len(rec.sets)
	var outstanding int64
	var mu sync.Mutex // harness ledger; never held across a scheduling point
	var tasks []*Task
	for i := 0; i < nTasks; i++ {
		rounds := 1 + t.Intn(scale(4, 6), "rounds")
		type rd struct {
			hold  time.Duration
			o     int
			set   int
			doSet bool
			dead  bool // the caller's context is already cancelled
			// the caller releases whatever token TryAcquire returned, also a refused one (strategy used directly)
			releaseRefused bool
		}
		var rds []rd
		for k := 0; k < rounds; k++ {
			x := rd{hold: []time.Duration{0, 1, 2, 1000, 2000000}[t.Intn(5, "hold")], o: t.Pick([]int{6, 2, 2}, "outcome")}
			if mode == 3 && t.Chance(30, "setlimit?") {
				x.doSet = true
				x.set = []int{1, 2, 3, 0, -2, 5}[t.Intn(6, "setv")]
			}
			x.dead = t.Chance(10, "abandoned-context")
			x.releaseRefused = mode == 3 && t.Chance(40, "release-refused-token")
			rds = append(rds, x)
		}
		tasks = append(tasks, s.Go("caller", func(tk *Task) {
			for _, x := range rds {
				if x.doSet {
					tk.Begin("setlimit", x.set)
					rec.SetLimit(x.set)
					tk.End(nil)
					continue
				}
				tk.Begin("acquire", nil)
				var l core.Listener
				var tok core.StrategyToken
				var ok bool
				if dl != nil {
					actx := tk.Ctx
					if x.dead {
						actx = cancelledCtx // the gate does not look at the caller's context: an abandoned request is admitted like any other
					}
					l, ok = dl.Acquire(actx)
					if (l != nil) != ok {
						s.Fail("listener-ok-mismatch", "default", "Acquire returned listener=%v ok=%v", l != nil, ok)
					}
				} else {
					tok, ok = rec.TryAcquire(tk.Ctx)
					if ok != tok.IsAcquired() {
						s.Fail("listener-ok-mismatch", "precise", "TryAcquire ok=%v but token.IsAcquired=%v", ok, tok.IsAcquired())
					}
					if !ok && x.releaseRefused {
						tok.Release() // `defer token.Release()` right after TryAcquire: releasing a token that was not acquired frees nothing
					}
				}
				if ok {
					mu.Lock()
					outstanding++
					mu.Unlock()
				}
				tk.End(ok)
				if !ok {
					continue
				}
				tk.Sleep(x.hold)
				tk.Begin("complete", outcomeNames[x.o])
				mu.Lock()
				outstanding--
				mu.Unlock()
				if dl != nil {
					Complete(l, x.o)
				} else {
					tok.Release()
				}
				tk.End(nil)
			}
		}))
	}
	if len(outside) > 0 {
		r.Probe("estimate_changed_from_outside")
		r.Fault("F-limit:outside")
		s.Go("operator", func(tk *Task) {
			for _, o := range outside {
				tk.Sleep(o.after)
				if settable != nil {
					settable.SetLimit(o.v)
				} else {
					script.mu.Lock()
					script.cur = o.v
					script.mu.Unlock()
				}
			}
		})
	}
	s.OnStable = func() {
		// conservation at stable points: nobody is inside an operation
		for _, tk := range tasks {
			if !tk.Idle() {
				return
			}
		}
		mu.Lock()
		out := outstanding
		mu.Unlock()
		var busy int
		ok := false
		if simple != nil {
			ok = RootCall(func() { busy = simple.GetBusyCount() })
		} else {
			ok = RootCall(func() { busy = precise.GetBusyCount() })
		}
		if ok && int64(busy) != out {
			s.Fail("busy-mismatch", stratKind, "strategy busy count %d != %d outstanding grants at a stable point", busy, out)
		}
		if dl != nil {
			if g := limiter.VerifInFlight(dl); g != out {
				s.Fail("gauge-mismatch", "default", "limiter in-flight gauge %d != %d outstanding grants at a stable point", g, out)
			}
		}
	}
	s.Run()
	r.VirtNs = s.Now()
	if r.Failed() || s.Failed() != nil || s.Truncated {
		return
	}
	// build the porcupine history
	var ops []porcupine.Operation
	maxRet := int64(s.Step + 2)
	add := func(client int, in gateIn, out interface{}, call, ret int) {
		c, rt := int64(call), int64(ret)
		if call < 0 {
			return
		}
		if ret < 0 {
			rt = maxRet
		}
		ops = append(ops, porcupine.Operation{ClientId: client, Input: in, Output: out, Call: c, Return: rt})
	}
	// initial limit: a setlimit that precedes everything
	initLim := initial
	if preSets > 0 {
		initLim = rec.sets[preSets-1].v
	}
	ops = append(ops, porcupine.Operation{ClientId: 99, Input: gateIn{kind: 2, v: initLim}, Call: -2, Return: -1})
	refused, overlaps := 0, 0
	for _, op := range s.Ops {
		switch op.Name {
		case "acquire":
			if op.Ret < 0 {
				continue // never returned (cannot happen for non-blocking kinds)
			}
			ok, _ := op.Out.(bool)
			if !ok {
				refused++
			}
			add(op.Task, gateIn{kind: 0}, ok, op.Call, op.Ret)
		case "complete":
			add(op.Task, gateIn{kind: 1}, nil, op.Call, op.Ret)
		}
	}
	limitChanges := 0
	for _, sr := range rec.sets[preSets:] {
		if sr.op == nil {
			continue
		}
		limitChanges++
		add(50+sr.op.Task, gateIn{kind: 2, v: sr.v}, nil, sr.op.Call, sr.op.Ret)
	}
	for i := range s.Ops {
		for j := i + 1; j < len(s.Ops); j++ {
			a, b := s.Ops[i], s.Ops[j]
			if a.Task != b.Task && a.Call <= b.Ret && b.Call <= a.Ret {
				overlaps++
			}
		}
	}
	if overlaps > 0 && (refused > 0 || limitChanges > 0) {
		r.Nontrivial = true
	}
	if limitChanges > 0 {
		r.Probe("limit_changed_while_running")
		r.Fault("F-limit")
	}
	if refused > 0 {
		r.Probe("acquire_refused")
	}
	r.post = append(r.post, func() {
		res := porcupine.CheckOperationsTimeout(gateModel, ops, 5*time.Second)
		switch res {
		case porcupine.Ok:
			r.PorcOK++
		case porcupine.Unknown:
			r.PorcUnknown++
		case porcupine.Illegal:
			r.PorcIllegal++
			desc := ""
			for _, o := range ops {
				desc += fmt.Sprintf("\n    client %d [%d,%d] %s", o.ClientId, o.Call, o.Return, gateModel.DescribeOperation(o.Input, o.Output))
			}
			r.Fail("not-linearizable", fmt.Sprintf("mode%d-%s", mode, stratKind),
				"history is not linearizable against an atomic counting gate (some Acquire was granted at or above the limit, or refused with room):%s", desc)
		}
	})
}
