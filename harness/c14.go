package harness

import (
	"context"
	"errors"
	"fmt"
	"io"

	golangGrpc "google.golang.org/grpc"
	"google.golang.org/grpc/codes"
	"google.golang.org/grpc/metadata"
	"google.golang.org/grpc/status"

	"github.com/platinummonkey/go-concurrency-limits/core"
	clgrpc "github.com/platinummonkey/go-concurrency-limits/grpc"
	"github.com/platinummonkey/go-concurrency-limits/limit"
	"github.com/platinummonkey/go-concurrency-limits/limiter"
	"github.com/platinummonkey/go-concurrency-limits/strategy"
)

func init() {
	Register(&Prop{
		ID: "C14", Bubble: true, Run: runC14, QuickRuns: 5000,
		ExpectedProbes: []string{"recv_send_overlapped", "unary_calls_overlapped", "real_grpc_run", "real_unary_end_to_end", "real_stream_end_to_end", "real_client_refusal", "real_server_refusal", "real_stream_refusal", "real_unary_ctx_fault_hit", "real_stream_ctx_fault_hit", "nested_interceptors", "nested_inner_refusal"},
		Rule: "one run = one interceptor kind (unary server, unary client, server stream wrapper) with a seeded option combination (limiter given or default, each classifier given or default, custom limit-exceeded code and response) driven through a seeded sequence of calls / RecvMsg / SendMsg operations under a fault plan (limiter refuses call k, handler / invoker / stream errors such as io.EOF, context.Canceled and status errors at seeded positions, classifier answers among success / ignore / dropped); a quarter of the stream runs put RecvMsg and SendMsg of one stream on two tasks over real limit-1 limiters under a seeded schedule; " +
			"oracle from the event log: Acquire on the right limiter precedes the wrapped call, wrapped call iff granted, exactly one listener method of the classified kind, result and error returned unchanged, refusal => no wrapped call, no listener call, status code and response of the limit-exceeded classifier; " +
			"one run in eight is END-TO-END: a real gRPC server (library's unary and stream server interceptors over four real limit-1..3 limiters wrapped in recording ledgers) and a real gRPC client (library's unary client interceptor) talk HTTP/2 over an in-memory bufconn listener inside the bubble; 1-6 unary and bidirectional-stream calls with scripted handler durations and status codes arrive on the virtual clock, some with client deadlines or cancellations in the middle of the call (propagated by the real transport); the server's handler goroutines are adopted by the scheduler at their first scheduling point inside the limiter and interleaved with the client tasks by the seeded schedule; oracle over the ledgers after every call returned and the server went quiet: every granted token of every limiter completed exactly once, as dropped iff the call / handler it guarded returned an error; a client-side refusal never reaches the server; a server-side refusal never runs the handler and the client sees ResourceExhausted; without a context fault the client receives exactly the handler's status, reply and (streams) every echo in order, with one send token per SendMsg and one receive token per RecvMsg; all four limiters end with zero tokens in flight; " +
			"non-trivial = the run contained a refusal, an error outcome and (streams) both directions; distinct = distinct choice tapes / event hashes",
		Real:        []string{"grpc.UnaryServerInterceptor", "grpc.UnaryClientInterceptor", "grpc.StreamServerInterceptor (ssRecvWrapper)", "grpc options", "google.golang.org/grpc status/codes", "limiter.DefaultLimiter (concurrent and end-to-end parts)", "end-to-end part: google.golang.org/grpc v1.71.1 client, server and HTTP/2 transport (un-instrumented, runs to quiescence between scheduling decisions), bufconn in-memory listener, protobuf wrapperspb messages"},
		Stubs:       []string{"protocol part: recording core.Limiter / core.Listener doubles, fake UnaryHandler / UnaryInvoker / grpc.ServerStream", "end-to-end part: no TCP socket (bufconn pipe), hand-written ServiceDesc instead of protoc-generated code"},
		FaultKinds:  []string{"F-refuse", "F-outcome", "F-rpc-deadline", "F-rpc-cancel"},
		Assumptions: []string{"stream operations: RecvMsg errors are classified by the stream server classifier, SendMsg errors by the stream client classifier (the mapping the package documents through its option names)"},
	})
}

type evLog struct {
	ev []string
}

func (l *evLog) add(format string, a ...any) { l.ev = append(l.ev, fmt.Sprintf(format, a...)) }

type fakeListener struct {
	log  *evLog
	name string
	id   int
}

func (f *fakeListener) OnSuccess() { f.log.add("listener:%s:%d:success", f.name, f.id) }
func (f *fakeListener) OnIgnore()  { f.log.add("listener:%s:%d:ignore", f.name, f.id) }
func (f *fakeListener) OnDropped() { f.log.add("listener:%s:%d:dropped", f.name, f.id) }

type fakeLimiter struct {
	log    *evLog
	name   string
	refuse map[int]bool // call index -> refuse
	n      int
	byCall map[int]int // caller tag (from the context) -> token id
	// refusals come with a non-nil listener
	refusalToken bool
}

type callTagKey struct{}

func (f *fakeLimiter) Acquire(ctx context.Context) (core.Listener, bool) {
	i := f.n
	f.n++
	if tag, ok := ctx.Value(callTagKey{}).(int); ok && f.byCall != nil {
		f.byCall[tag] = i
	}
	if f.refuse[i] {
		f.log.add("acquire:%s:%d:refused", f.name, i)
		if f.refusalToken {
			// refused == ok is false; the listener value is not nil (the library's own strategies return such a pair):
			// it must not be touched, any call on it shows up in the event log
			return &fakeListener{log: f.log, name: f.name + "-refusal-token", id: i}, false
		}
		return nil, false
	}
	f.log.add("acquire:%s:%d:granted", f.name, i)
	return &fakeListener{log: f.log, name: f.name, id: i}, true
}
func (f *fakeLimiter) String() string { return "fakeLimiter{" + f.name + "}" }

type fakeStream struct {
	log     *evLog
	ctx     context.Context
	recvErr func(i int) error
	sendErr func(i int) error
	nr, ns  int
	yield   func(site string)
}

func (s *fakeStream) SetHeader(metadata.MD) error  { return nil }
func (s *fakeStream) SendHeader(metadata.MD) error { return nil }
func (s *fakeStream) SetTrailer(metadata.MD)       {}
func (s *fakeStream) Context() context.Context     { return s.ctx }
func (s *fakeStream) SendMsg(m interface{}) error {
	i := s.ns
	s.ns++
	s.log.add("call:send:%d", i)
	if s.yield != nil {
		s.yield("fakeStream.SendMsg")
	}
	return s.sendErr(i)
}
func (s *fakeStream) RecvMsg(m interface{}) error {
	i := s.nr
	s.nr++
	s.log.add("call:recv:%d", i)
	if s.yield != nil {
		s.yield("fakeStream.RecvMsg")
	}
	return s.recvErr(i)
}

var errPool = []error{nil, io.EOF, context.Canceled, status.Error(codes.Internal, "boom"), errors.New("plain"), status.Error(codes.Unavailable, "later"), nil, nil}

var respNames = []string{"success", "ignore", "dropped"}

func expectListener(rt clgrpc.ResponseType) string {
	switch rt {
	case clgrpc.ResponseTypeSuccess:
		return "success"
	case clgrpc.ResponseTypeIgnore:
		return "ignore"
	}
	return "dropped"
}

func runC14(r *Run) {
	t := r.T
	if t.Chance(12, "real-grpc") {
		runC14Real(r)
		return
	}
	if t.Chance(8, "nested-interceptors") {
		runC14Nested(r)
		return
	}
	kind := t.Intn(3, "interceptor") // 0 unary server, 1 unary client, 2 stream
	if kind == 2 && t.Chance(25, "concurrent") {
		runC14Concurrent(r)
		return
	}
	if kind != 2 && t.Chance(20, "concurrent-unary") {
		runC14ConcurrentUnary(r, kind)
		return
	}
	log := &evLog{}
	giveLimiter := t.Chance(85, "limiter-given")
	giveRespCls := t.Chance(60, "resp-classifier-given")
	giveExcCls := t.Chance(60, "exceeded-classifier-given")
	nOps := 1 + t.Intn(12, "ops")
	recvLim := &fakeLimiter{log: log, name: "recv", refuse: map[int]bool{}}
	sendLim := &fakeLimiter{log: log, name: "send", refuse: map[int]bool{}}
	unaryLim := &fakeLimiter{log: log, name: "unary", refuse: map[int]bool{}}
	for i := 0; i < nOps; i++ {
		if t.Chance(25, "refuse?") {
			recvLim.refuse[i] = true
			r.Fault("F-refuse")
		}
		if t.Chance(25, "refuse-send?") {
			sendLim.refuse[i] = true
		}
		if t.Chance(25, "refuse-unary?") {
			unaryLim.refuse[i] = true
		}
	}
	// classifier answers per call index
	answers := make([]clgrpc.ResponseType, 64)
	for i := range answers {
		answers[i] = clgrpc.ResponseType(t.Intn(3, "classifier-answer"))
	}
	excCode := []codes.Code{codes.ResourceExhausted, codes.Unavailable, codes.Aborted, codes.OK}[t.Intn(4, "exceeded-code")] // OK: the refusal is reported as a nil error - the wrapped call still must not run
	excResp := &struct{ x int }{42}
	excCalls := 0
	excLimiterSeen := ""
	// the classifier's error may itself be (or wrap) a gRPC status of another code: the code it CHOSE is what counts
	excErr := []error{fmt.Errorf("custom exceeded"), fmt.Errorf("custom exceeded"), status.Error(codes.DataLoss, "custom exceeded"), fmt.Errorf("custom exceeded: %w", status.Error(codes.PermissionDenied, "inner"))}[t.Intn(4, "exceeded-err-kind")]
	if t.Chance(30, "refusal-token") {
		recvLim.refusalToken, sendLim.refusalToken, unaryLim.refusalToken = true, true, true
	}
	excCls := func(ctx context.Context, method string, req interface{}, l core.Limiter) (interface{}, codes.Code, error) {
		excCalls++
		excLimiterSeen = fmt.Sprint(l)
		return excResp, excCode, excErr
	}
	errs := make([]error, 64)
	for i := range errs {
		errs[i] = errPool[t.Intn(len(errPool), "err")]
	}
	r.Mixf("C14 kind=%d limiter-given=%v resp-classifier=%v exceeded-classifier=%v ops=%d", kind, giveLimiter, giveRespCls, giveExcCls, nOps)
	refusals, errOutcomes := 0, 0
	dirs := map[string]bool{}
	// F-cancel: some operations run with an already-cancelled context (the limiter doubles still grant)
	cctx, ccancel := context.WithCancel(bg)
	ccancel()
	cancelledCall := make([]bool, 64)
	for i := range cancelledCall {
		cancelledCall[i] = t.Chance(15, "cancelled-ctx?")
	}
	streamCancelAt := -1
	if t.Chance(30, "stream-cancel?") {
		streamCancelAt = t.Intn(nOps, "stream-cancel-at")
	}

	checkOp := func(i int, limName string, idx int, refused bool, wrappedTag string, gotErr, wantErr error, wantKind string) bool {
		// events of this operation = the tail of the log since mark
		return true
	}
	_ = checkOp

	switch kind {
	case 0, 1:
		var opts []clgrpc.InterceptorOption
		if giveLimiter {
			opts = append(opts, clgrpc.WithLimiter(unaryLim))
		}
		clsCalls := 0
		if giveRespCls {
			opts = append(opts, clgrpc.WithServerResponseTypeClassifier(func(ctx context.Context, req interface{}, info *golangGrpc.UnaryServerInfo, resp interface{}, err error) clgrpc.ResponseType {
				clsCalls++
				return answers[req.(int)]
			}))
			opts = append(opts, clgrpc.WithClientResponseTypeClassifier(func(ctx context.Context, method string, req, reply interface{}, err error) clgrpc.ResponseType {
				clsCalls++
				return answers[req.(int)]
			}))
		}
		if giveExcCls {
			opts = append(opts, clgrpc.WithLimitExceededResponseClassifier(excCls))
		}
		// naming options may appear anywhere in the option list and must not disturb the others
		if t.Chance(40, "with-name") {
			pos := t.Intn(len(opts)+1, "name-pos")
			opts = append(opts[:pos], append([]clgrpc.InterceptorOption{clgrpc.WithName("svc")}, opts[pos:]...)...)
		}
		if t.Chance(30, "with-tags") {
			pos := t.Intn(len(opts)+1, "tags-pos")
			opts = append(opts[:pos], append([]clgrpc.InterceptorOption{clgrpc.WithTags([]string{"k:v"})}, opts[pos:]...)...)
		}
		srv := clgrpc.UnaryServerInterceptor(opts...)
		cli := clgrpc.UnaryClientInterceptor(opts...)
		// every method is limited alike, whatever its name (also the well-known services an instance exposes)
		method := []string{"/svc/m", "/svc/m", "/grpc.health.v1.Health/Check", "/grpc.reflection.v1.ServerReflection/ServerReflectionInfo", "/svc.Admin/Shutdown"}[t.Intn(5, "method-name")]
		for i := 0; i < nOps; i++ {
			mark := len(log.ev)
			wantResp := &struct{ i int }{i}
			wantErr := errs[i]
			handlerCalls := 0
			var gotResp interface{}
			var gotErr error
			callCtx := bg
			if cancelledCall[i] {
				callCtx = cctx
				r.Fault("F-cancel")
			}
			if kind == 0 {
				gotResp, gotErr = srv(callCtx, i, &golangGrpc.UnaryServerInfo{FullMethod: method}, func(ctx context.Context, req interface{}) (interface{}, error) {
					handlerCalls++
					log.add("call:handler:%d", i)
					return wantResp, wantErr
				})
			} else {
				gotErr = cli(callCtx, method, i, nil, nil, func(ctx context.Context, _ string, req, reply interface{}, cc *golangGrpc.ClientConn, opts ...golangGrpc.CallOption) error {
					handlerCalls++
					log.add("call:handler:%d", i)
					return wantErr
				})
			}
			evs := log.ev[mark:]
			if r.Verbose {
				r.Notef("op %d err=%v -> events %v result err=%v", i, wantErr, evs, gotErr)
			}
			if !giveLimiter {
				// default limiter (real): the call must go through unchanged
				if handlerCalls != 1 || gotErr != wantErr || (kind == 0 && gotResp != interface{}(wantResp)) {
					r.Fail("result-altered", "unary/default-limiter", "with the default limiter call %d: handler calls %d, returned (%v,%v), handler produced (%v,%v)", i, handlerCalls, gotResp, gotErr, wantResp, wantErr)
					return
				}
				continue
			}
			refused := unaryLim.refuse[i]
			if refused {
				refusals++
				if handlerCalls != 0 || len(evs) != 1 {
					r.Fail("refusal-not-short-circuit", "unary", "limiter refused call %d but events are %v (handler calls %d)", i, evs, handlerCalls)
					return
				}
				wantCode := codes.ResourceExhausted
				if giveExcCls {
					wantCode = excCode
				}
				if status.Code(gotErr) != wantCode {
					r.Fail("refusal-wrong-status", "unary", "refused call %d returned status %v, the limit-exceeded classifier chose %v", i, status.Code(gotErr), wantCode)
					return
				}
				if kind == 0 && giveExcCls && gotResp != interface{}(excResp) {
					r.Fail("refusal-wrong-response", "unary", "refused call %d returned response %v, the classifier's response is %v", i, gotResp, excResp)
					return
				}
				continue
			}
			want := "success"
			if giveRespCls {
				want = expectListener(answers[i])
			} else if wantErr != nil {
				want = "dropped"
			}
			if wantErr != nil {
				errOutcomes++
			}
			exp := []string{fmt.Sprintf("acquire:unary:%d:granted", i), fmt.Sprintf("call:handler:%d", i), fmt.Sprintf("listener:unary:%d:%s", i, want)}
			if !sameStrings(evs, exp) {
				key := "unary/sequence"
				if len(evs) == 3 && evs[0] == exp[0] && evs[1] == exp[1] {
					key = "unary/listener-kind"
				}
				r.Fail("interceptor-protocol", key, "call %d (handler error %v, classifier %s): events %v, expected %v", i, wantErr, want, evs, exp)
				return
			}
			if gotErr != wantErr || (kind == 0 && gotResp != interface{}(wantResp)) {
				r.Fail("result-altered", "unary", "call %d returned (%v,%v), handler produced (%v,%v)", i, gotResp, gotErr, wantResp, wantErr)
				return
			}
		}
	case 2:
		var opts []clgrpc.StreamInterceptorOption
		var streamGiven func(send bool) bool
		// possibly only ONE direction gets a limiter of ours: the other direction then runs on the built-in default
		// limiter and must never touch the configured one
		onlyDir := 0 // 0 both, 1 only recv, 2 only send
		if giveLimiter && t.Chance(25, "one-direction-limiter") {
			onlyDir = 1 + t.Intn(2, "which-direction")
		}
		streamGiven = func(send bool) bool {
			return giveLimiter && (onlyDir == 0 || (onlyDir == 1 && !send) || (onlyDir == 2 && send))
		}
		if giveLimiter {
			switch onlyDir {
			case 1:
				opts = append(opts, clgrpc.WithStreamRecvLimiter(recvLim))
			case 2:
				opts = append(opts, clgrpc.WithStreamSendLimiter(sendLim))
			default:
				opts = append(opts, clgrpc.WithStreamRecvLimiter(recvLim), clgrpc.WithStreamSendLimiter(sendLim))
			}
		}
		if giveRespCls {
			opts = append(opts, clgrpc.WithStreamServerResponseTypeClassifier(func(ctx context.Context, req interface{}, info *golangGrpc.StreamServerInfo, err error) clgrpc.ResponseType {
				return answers[req.(int)]
			}))
			opts = append(opts, clgrpc.WithStreamClientResponseTypeClassifier(func(ctx context.Context, req interface{}, info *golangGrpc.StreamServerInfo, err error) clgrpc.ResponseType {
				return answers[32+req.(int)]
			}))
		}
		if giveExcCls {
			opts = append(opts, clgrpc.WithStreamRecvLimitExceededResponseClassifier(excCls), clgrpc.WithStreamSendLimitExceededResponseClassifier(excCls))
		}
		if t.Chance(40, "with-stream-names") {
			pos := t.Intn(len(opts)+1, "name-pos")
			opts = append(opts[:pos], append([]clgrpc.StreamInterceptorOption{clgrpc.WithStreamRecvName("r"), clgrpc.WithStreamSendName("s")}, opts[pos:]...)...)
		}
		ic := clgrpc.StreamServerInterceptor(opts...)
		sctx, scancel := context.WithCancel(bg)
		defer scancel()
		fs := &fakeStream{log: log, ctx: sctx, recvErr: func(i int) error { return errs[i] }, sendErr: func(i int) error { return errs[32+i] }}
		var wrapped golangGrpc.ServerStream
		herr := errors.New("handler result")
		streamMethod := []string{"/svc/stream", "/svc/stream", "/grpc.health.v1.Health/Watch", "/grpc.reflection.v1.ServerReflection/ServerReflectionInfo"}[t.Intn(4, "stream-method-name")]
		got := ic(nil, fs, &golangGrpc.StreamServerInfo{FullMethod: streamMethod}, func(srv interface{}, ss golangGrpc.ServerStream) error {
			wrapped = ss
			return herr
		})
		if got != herr {
			r.Fail("result-altered", "stream/handler", "stream handler result altered: %v", got)
			return
		}
		nr, nsnd := 0, 0
		for i := 0; i < nOps; i++ {
			if i == streamCancelAt {
				scancel() // the stream's context is cancelled from here on; the limiter doubles still grant
				r.Fault("F-cancel")
			}
			send := t.Intn(2, "direction") == 1
			mark := len(log.ev)
			var gotErr, wantErr error
			var lim *fakeLimiter
			var idx int
			dir := "recv"
			if send {
				dir = "send"
				idx = fs.ns // index of the inner call, if it happens
				nsnd++
				lim = sendLim
				wantErr = errs[32+idx]
				gotErr = wrapped.SendMsg(idx)
			} else {
				idx = fs.nr
				nr++
				lim = recvLim
				wantErr = errs[idx]
				gotErr = wrapped.RecvMsg(idx)
			}
			dirs[dir] = true
			evs := log.ev[mark:]
			if r.Verbose {
				r.Notef("op %d %s #%d inner err=%v -> events %v result %v", i, dir, idx, wantErr, evs, gotErr)
			}
			if !streamGiven(send) {
				if len(evs) != 1 || gotErr != wantErr {
					r.Fail("result-altered", "stream/default-limiter", "%s #%d with default limiters: events %v returned %v, stream produced %v", dir, idx, evs, gotErr, wantErr)
					return
				}
				continue
			}
			// which limiter was consulted?
			if len(evs) == 0 || len(evs[0]) < 8 || evs[0][:8+len(dir)] != "acquire:"+dir {
				r.Fail("wrong-limiter", "stream/"+dir, "%s operation #%d must acquire from the %s limiter first; events: %v", dir, idx, dir, evs)
				return
			}
			// the limiter's own call counter is what refusal was scripted on
			li := lim.n - 1
			if lim.refuse[li] {
				refusals++
				if len(evs) != 1 {
					r.Fail("refusal-not-short-circuit", "stream/"+dir, "%s limiter refused but events are %v", dir, evs)
					return
				}
				wantCode := codes.ResourceExhausted
				if giveExcCls {
					wantCode = excCode
				}
				if status.Code(gotErr) != wantCode {
					r.Fail("refusal-wrong-status", "stream/"+dir, "refused %s returned status %v, classifier chose %v", dir, status.Code(gotErr), wantCode)
					return
				}
				if giveExcCls && excLimiterSeen != fmt.Sprint(lim) {
					r.Fail("wrong-limiter", "stream/"+dir+"/classifier-arg", "the limit-exceeded classifier of a %s operation was shown %s", dir, excLimiterSeen)
					return
				}
				continue
			}
			want := "success"
			if wantErr != nil {
				errOutcomes++
				want = "dropped"
				if giveRespCls {
					if send {
						want = expectListener(answers[32+idx])
					} else {
						want = expectListener(answers[idx])
					}
				}
			}
			exp := []string{fmt.Sprintf("acquire:%s:%d:granted", dir, li), fmt.Sprintf("call:%s:%d", dir, idx), fmt.Sprintf("listener:%s:%d:%s", dir, li, want)}
			if !sameStrings(evs, exp) {
				key := "stream/" + dir + "/sequence"
				if len(evs) == 3 && evs[0] == exp[0] && evs[1] == exp[1] {
					key = "stream/" + dir + "/listener-kind"
				}
				r.Fail("interceptor-protocol", key, "%s #%d (inner error %v): events %v, expected %v", dir, idx, wantErr, evs, exp)
				return
			}
			if gotErr != wantErr {
				r.Fail("result-altered", "stream/"+dir, "%s #%d returned %v, the stream produced %v", dir, idx, gotErr, wantErr)
				return
			}
		}
	}
	if refusals > 0 && errOutcomes > 0 && (kind != 2 || (dirs["recv"] && dirs["send"])) {
		r.Nontrivial = true
	}
	_ = excCalls
}

func sameStrings(a, b []string) bool {
	if len(a) != len(b) {
		return false
	}
	for i := range a {
		if a[i] != b[i] {
			return false
		}
	}
	return true
}

// runC14Concurrent: RecvMsg and SendMsg of one wrapped stream on two tasks,
// real limit-1 limiters: independent gating, exactly-once completion.
func runC14Concurrent(r *Run) {
	t := r.T
	mk := func() (*limiter.DefaultLimiter, *strategy.PreciseStrategy) {
		st := strategy.NewPreciseStrategy(1)
		dl, _ := limiter.NewDefaultLimiter(limit.NewFixedLimit("f", 1, nil), 1e9, 1e9, 0, 10, st, nopLogger{}, core.EmptyMetricRegistryInstance)
		return dl, st
	}
	recvL, recvS := mk()
	sendL, sendS := mk()
	log := &evLog{}
	s := r.NewSched()
	fs := &fakeStream{log: log, ctx: bg, recvErr: func(i int) error { return nil }, sendErr: func(i int) error { return nil }}
	fs.yield = func(site string) { globalHook(kYield, site) }
	nr, ns := 1+t.Intn(3, "recvs"), 1+t.Intn(3, "sends")
	eR := errPool[t.Intn(len(errPool), "recv-err")]
	eS := errPool[t.Intn(len(errPool), "send-err")]
	fs.recvErr = func(i int) error { return eR }
	fs.sendErr = func(i int) error { return eS }
	r.Mixf("C14 concurrent stream recvs=%d sends=%d recvErr=%v sendErr=%v", nr, ns, eR, eS)
	ic := clgrpc.StreamServerInterceptor(clgrpc.WithStreamRecvLimiter(recvL), clgrpc.WithStreamSendLimiter(sendL))
	var wrapped golangGrpc.ServerStream
	ic(nil, fs, &golangGrpc.StreamServerInfo{FullMethod: "/svc/stream"}, func(srv interface{}, ss golangGrpc.ServerStream) error {
		wrapped = ss
		return nil
	})
	overlap := false
	s.Go("receiver", func(tk *Task) {
		for i := 0; i < nr; i++ {
			tk.Begin("recv", i)
			err := wrapped.RecvMsg(i)
			tk.End(fmt.Sprint(err))
			if err != eR {
				s.Fail("refused-with-room", "stream/recv/concurrent", "RecvMsg #%d returned %v (inner result %v) although only this task uses the receive limiter (limit 1)", i, err, eR)
			}
		}
	})
	s.Go("sender", func(tk *Task) {
		for i := 0; i < ns; i++ {
			tk.Begin("send", i)
			err := wrapped.SendMsg(i)
			tk.End(fmt.Sprint(err))
			if err != eS {
				s.Fail("refused-with-room", "stream/send/concurrent", "SendMsg #%d returned %v (inner result %v) although only this task uses the send limiter (limit 1): a send must not be gated by the receive limiter", i, err, eS)
			}
		}
	})
	s.OnQuiescent = func() {
		in := 0
		for _, tk := range s.tasks {
			if tk.MidOp() {
				in++
			}
		}
		if in == 2 {
			overlap = true
		}
	}
	s.AfterDrain = func() {
		var a, b int
		RootCall(func() { a, b = recvS.GetBusyCount(), sendS.GetBusyCount() })
		if a != 0 || b != 0 {
			s.Fail("token-not-completed", "stream/concurrent", "after every stream operation returned the limiters still count %d (recv) and %d (send) tokens in flight", a, b)
		}
	}
	s.Run()
	if overlap {
		r.Nontrivial = true
		r.Probe("recv_send_overlapped")
	}
}

// runC14ConcurrentUnary: several calls overlap inside ONE unary interceptor instance
// (the handler / invoker contains a scheduling point); every call must complete its own token
// exactly once with the outcome of its own result.
func runC14ConcurrentUnary(r *Run, kind int) {
	t := r.T
	log := &evLog{}
	lim := &fakeLimiter{log: log, name: "unary", refuse: map[int]bool{}, byCall: map[int]int{}}
	srv := clgrpc.UnaryServerInterceptor(clgrpc.WithLimiter(lim))
	cli := clgrpc.UnaryClientInterceptor(clgrpc.WithLimiter(lim))
	s := r.NewSched()
	nCalls := 2 + t.Intn(3, "calls")
	errsC := make([]error, nCalls)
	for i := range errsC {
		errsC[i] = errPool[t.Intn(len(errPool), "err")]
	}
	r.Mixf("C14 concurrent unary kind=%d calls=%d errs=%v", kind, nCalls, errsC)
	got := make([]error, nCalls)
	done := make([]bool, nCalls)
	overlap := false
	inside := 0
	for i := 0; i < nCalls; i++ {
		i := i
		s.Go("caller", func(tk *Task) {
			ctx := context.WithValue(bg, callTagKey{}, i)
			tk.Begin("call", i)
			if kind == 0 {
				_, got[i] = srv(ctx, i, &golangGrpc.UnaryServerInfo{FullMethod: "/svc/m"}, func(ctx context.Context, req interface{}) (interface{}, error) {
					inside++
					if inside > 1 {
						overlap = true
					}
					globalHook(kYield, "handler")
					inside--
					return i, errsC[i]
				})
			} else {
				got[i] = cli(ctx, "/svc/m", i, nil, nil, func(ctx context.Context, method string, req, reply interface{}, cc *golangGrpc.ClientConn, opts ...golangGrpc.CallOption) error {
					inside++
					if inside > 1 {
						overlap = true
					}
					globalHook(kYield, "invoker")
					inside--
					return errsC[i]
				})
			}
			done[i] = true
			tk.End(nil)
		})
	}
	s.Run()
	if s.Failed() != nil || s.Truncated {
		return
	}
	for i := 0; i < nCalls; i++ {
		if !done[i] {
			return
		}
		if got[i] != errsC[i] {
			r.Fail("result-altered", "unary/concurrent", "call %d returned %v, its handler produced %v", i, got[i], errsC[i])
			return
		}
		id, ok := lim.byCall[i]
		if !ok {
			r.Fail("interceptor-protocol", "unary/concurrent", "call %d never acquired", i)
			return
		}
		want := "success"
		if errsC[i] != nil {
			want = "dropped"
		}
		n := 0
		kinds := ""
		for _, e := range log.ev {
			var gid int
			var k string
			if _, err := fmt.Sscanf(e, "listener:unary:%d:", &gid); err == nil && gid == id {
				n++
				k = e[len(fmt.Sprintf("listener:unary:%d:", gid)):]
				kinds += k + " "
			}
		}
		if n != 1 || kinds != want+" " {
			r.Fail("interceptor-protocol", "unary/concurrent", "overlapping calls through one interceptor: the token of call %d (handler error %v) was completed %d time(s) [%s], expected exactly once as %s; event log: %v", i, errsC[i], n, kinds, want, log.ev)
			return
		}
	}
	if overlap {
		r.Nontrivial = true
		r.Probe("unary_calls_overlapped")
	}
}

// runC14Nested: a call that passes through TWO interceptors of the library, each with its own limiter - a limited
// server handler that makes an outbound call through a limited client with the handler's context (the standard
// deployment), or two server interceptors chained on one call. Every interceptor must consult its own limiter, run
// its wrapped call only when granted, and complete its own token exactly once.
func runC14Nested(r *Run) {
	t := r.T
	log := &evLog{}
	outer := &fakeLimiter{log: log, name: "outer", refuse: map[int]bool{}}
	inner := &fakeLimiter{log: log, name: "inner", refuse: map[int]bool{}}
	chainServers := t.Chance(40, "two-server-interceptors")
	n := 1 + t.Intn(4, "calls")
	for i := 0; i < n; i++ {
		if t.Chance(25, "outer-refuses") {
			outer.refuse[i] = true
		}
	}
	// inner call indices advance only when the inner limiter is reached
	for i := 0; i < n; i++ {
		if t.Chance(30, "inner-refuses") {
			inner.refuse[i] = true
		}
	}
	// the usual wiring: common options first, the specific ones appended - the option lists of the interceptors then
	// share one backing array, and each list is rewritten when the next one is built; every interceptor is
	// configured by the options it was given at the moment it was created
	opts := func(l core.Limiter) []clgrpc.InterceptorOption {
		return []clgrpc.InterceptorOption{clgrpc.WithLimiter(l)}
	}
	if t.Chance(40, "option-lists-share-backing-array") {
		common := make([]clgrpc.InterceptorOption, 1, 4)
		common[0] = clgrpc.WithName("svc")
		opts = func(l core.Limiter) []clgrpc.InterceptorOption { return append(common, clgrpc.WithLimiter(l)) }
		r.Probe("option_lists_share_backing_array")
	}
	srvOuter := clgrpc.UnaryServerInterceptor(opts(outer)...)
	srvInner := clgrpc.UnaryServerInterceptor(opts(inner)...)
	cliInner := clgrpc.UnaryClientInterceptor(opts(inner)...)
	r.Mixf("C14 nested chainServers=%v calls=%d outerRefuse=%v innerRefuse=%v", chainServers, n, outer.refuse, inner.refuse)
	innerSeen := 0
	for i := 0; i < n; i++ {
		innermost := 0
		var innerErr error
		innerReached := false
		handler := func(ctx context.Context, req interface{}) (interface{}, error) {
			innerReached = true
			if chainServers {
				return srvInner(ctx, req, &golangGrpc.UnaryServerInfo{FullMethod: "/svc/m"}, func(ctx context.Context, req interface{}) (interface{}, error) {
					innermost++
					return "resp", nil
				})
			}
			innerErr = cliInner(ctx, "/downstream/m", req, nil, nil, func(ctx context.Context, method string, req, reply interface{}, cc *golangGrpc.ClientConn, opts ...golangGrpc.CallOption) error {
				innermost++
				return nil
			})
			return "resp", innerErr
		}
		before := len(log.ev)
		_, err := srvOuter(bg, i, &golangGrpc.UnaryServerInfo{FullMethod: "/svc/m"}, handler)
		evs := log.ev[before:]
		if outer.refuse[i] {
			if innerReached || status.Code(err) != codes.ResourceExhausted {
				r.Fail("refusal-not-short-circuit", "nested/outer", "outer limiter refused call %d but the handler ran=%v, error %v", i, innerReached, err)
				return
			}
			continue
		}
		// the inner interceptor must have asked ITS limiter
		k := innerSeen
		innerSeen++
		wantAcq := fmt.Sprintf("acquire:inner:%d:granted", k)
		if inner.refuse[k] {
			wantAcq = fmt.Sprintf("acquire:inner:%d:refused", k)
		}
		found := false
		for _, e := range evs {
			if e == wantAcq {
				found = true
			}
		}
		if !found {
			r.Fail("interceptor-protocol", "nested/inner-limiter-bypassed", "call %d passed the outer interceptor; the inner interceptor (its own limiter) never consulted that limiter: events %v", i, evs)
			return
		}
		if inner.refuse[k] {
			if innermost != 0 || status.Code(err) != codes.ResourceExhausted {
				r.Fail("refusal-not-short-circuit", "nested/inner", "inner limiter refused call %d but the wrapped call ran %d time(s), error %v", i, innermost, err)
				return
			}
			r.Probe("nested_inner_refusal")
		} else if innermost != 1 {
			r.Fail("interceptor-protocol", "nested/inner", "call %d was granted by both limiters; the innermost call ran %d time(s)", i, innermost)
			return
		}
		// exactly one completion per granted token
		cnt := map[string]int{}
		for _, e := range evs {
			if len(e) > 9 && e[:9] == "listener:" {
				cnt[e[9:14]]++
			}
		}
		wantInner := 1
		if inner.refuse[k] {
			wantInner = 0
		}
		if cnt["outer"] != 1 || cnt["inner"] != wantInner {
			r.Fail("interceptor-protocol", "nested/completions", "call %d: outer token completed %d time(s), inner token %d time(s) (expected 1 and %d): events %v", i, cnt["outer"], cnt["inner"], wantInner, evs)
			return
		}
	}
	r.Nontrivial = true
	r.Probe("nested_interceptors")
}
