package harness

import (
	"time"

	"github.com/platinummonkey/go-concurrency-limits/core"
)

// C10 — blocked callers are woken when capacity frees (no lost wake-up / hand-off).
func init() {
	Register(&Prop{
		ID: "C10", Bubble: true, Run: runC10, QuickRuns: 4000,
		ExpectedProbes: []string{"release_overlapped_waiter_midop", "release_while_waiter_asleep"},
		Rule: "one run = one seeded scenario (limiter kind, strategy, limit 1..3, timeout, 1..3 waiters, releases with random outcomes) under one seeded schedule; " +
			"non-trivial = a release step executed while some waiter was parked at a scheduling point inside Acquire (between 'attempt failed' and 'asleep') or already asleep; " +
			"distinct = distinct hashes of (decision sequence with sites, operation returns)",
		Real:       []string{"limiter.BlockingLimiter", "limiter.DeadlineLimiter", "limiter.QueueBlockingLimiter", "limiter.DelegateListener", "limiter.DefaultLimiter", "strategy.SimpleStrategy", "strategy.PreciseStrategy", "patterns/pool", "limit.FixedLimit"},
		Stubs:      []string{"logger (no-op)", "recording metric registry"},
		FaultKinds: []string{"F-preempt", "F-outcome"},
		Assumptions: []string{"interleavings are explored at inserted scheduling points (locks, atomics, channel ops, select, go, Broadcast)",
			"no timeout, cancellation or extra release is injected before the stable-point check"},
	})
}

type c10cfg struct {
	stack    StackCfg
	waiters  int
	releases int
	outcomes []int
}

func drawBlockingStack(t *Tape, kinds []string) StackCfg {
	var c StackCfg
	c.Kind = kinds[t.Intn(len(kinds), "kind")]
	c.DebugLog = t.Chance(25, "debug-logger")
	c.Strategy = []string{"simple", "precise"}[t.Intn(2, "strategy")]
	c.Limit = 1 + t.Intn(3, "limit")
	c.Backlog = 4
	switch c.Kind {
	case "blocking":
		c.Timeout = []time.Duration{0, 50 * time.Millisecond, time.Hour}[t.Intn(3, "timeout")]
	case "deadline":
		c.Deadline = []time.Duration{time.Hour, 5 * time.Second}[t.Intn(2, "deadline")]
	case "queue":
		c.Ordering = []string{"lifo", "fifo", ""}[t.Intn(3, "ordering")]
		c.Timeout = []time.Duration{time.Second, time.Hour, 10 * time.Millisecond, -1}[t.Intn(4, "timeout")] // negative: no backlog timeout at all
		c.Evict = t.Intn(2, "evict") == 1
	case "fixedpool", "pool":
		c.Ordering = []string{"random", "fifo", "lifo"}[t.Intn(3, "ordering")]
		c.Timeout = []time.Duration{0, time.Second, time.Hour}[t.Intn(3, "timeout")]
		if c.Ordering != "random" && c.Timeout == 0 {
			c.Timeout = time.Second // 0 means "default 1s" for queue kinds
		}
		if c.Kind == "fixedpool" {
			c.Strategy = "precise"
		}
	}
	return c
}

func runC10(r *Run) {
	t := r.T
	if t.Chance(35, "rich-mode") {
		runC10Rich(r)
		return
	}
	cfg := c10cfg{}
	cfg.stack = drawBlockingStack(t, []string{"blocking", "queue", "deadline", "fixedpool", "pool"})
	cfg.waiters = 1 + t.Intn(scale(3, 5), "waiters")
	cfg.releases = 1 + t.Intn(cfg.stack.Limit, "releases")
	r.Mixf("C10 %s waiters=%d releases=%d", cfg.stack, cfg.waiters, cfg.releases)

	st, err := BuildStack(cfg.stack)
	if err != nil {
		r.Fail("harness", "build", "cannot build stack: %v", err)
		return
	}
	s := r.NewSched()
	limitN := cfg.stack.Limit
	// the holders take all capacity up front (sequentially, on the driving goroutine)
	var held []core.Listener
	for i := 0; i < limitN; i++ {
		l, ok := st.Lim.Acquire(bg)
		if !ok || l == nil {
			r.Fail("refused-with-room", cfg.stack.Key(), "initial acquire %d of %d refused", i+1, limitN)
			return
		}
		st.Out.Add(1)
		held = append(held, l)
	}
	var waiters []*Task
	for w := 0; w < cfg.waiters; w++ {
		o := t.Intn(3, "waiter-outcome")
		waiters = append(waiters, s.Go("waiter", func(tk *Task) {
			tk.Begin("acquire", nil)
			l, ok := st.Lim.Acquire(tk.Ctx)
			if ok {
				st.Out.Add(1)
			}
			tk.End(ok)
			if (l != nil) != ok {
				s.Fail("listener-ok-mismatch", cfg.stack.Key(), "Acquire returned listener=%v ok=%v", l != nil, ok)
				return
			}
			if ok {
				tk.Begin("release", outcomeNames[o])
				st.Out.Add(-1)
				Complete(l, o)
				tk.End(nil)
			}
		}))
	}
	for i := 0; i < cfg.releases; i++ {
		o := t.Intn(3, "outcome")
		l := held[i]
		s.Go("releaser", func(tk *Task) {
			tk.Begin("release", outcomeNames[o])
			st.Out.Add(-1)
			Complete(l, o)
			tk.End(nil)
		})
	}
	held = held[cfg.releases:]

	s.OnQuiescent = func() {
		// reach probe: a release step ran while a waiter was inside Acquire
		if s.cur != nil && s.cur.curOp != nil && s.cur.curOp.Name == "release" {
			for _, w := range waiters {
				if w.MidOp() && w.curOp.Name == "acquire" {
					r.Probe("release_overlapped_waiter_midop")
					r.Nontrivial = true
				} else if w.BlockedInOp("acquire") {
					r.Probe("release_while_waiter_asleep")
					r.Nontrivial = true
				}
			}
		}
	}
	check := func(where string) {
		blocked := 0
		for _, w := range waiters {
			if w.BlockedInOp("acquire") {
				blocked++
			}
		}
		if blocked == 0 {
			return
		}
		free := int64(limitN) - st.Out.Load()
		if busy, ok := st.Busy(); ok && int64(limitN-busy) < free {
			free = int64(limitN - busy)
		}
		if free > 0 {
			r.Probe("stable_with_blocked_waiter_and_free_capacity")
			s.Fail("lost-wakeup", cfg.stack.Key(), "%s: %d caller(s) blocked in Acquire while %d unit(s) of capacity are free (limit %d) and nothing else can run; "+
				"no further release, timeout or cancellation should be needed [%s]", where, blocked, free, limitN, cfg.stack)
		}
	}
	s.OnStable = func() { check("stable point at t=" + time.Duration(s.Now()).String()) }
	s.OnDrain = func() {
		rest := held
		if len(rest) > 0 {
			s.Go("drain-releaser", func(tk *Task) {
				for _, l := range rest {
					l.OnIgnore()
				}
			})
		}
	}
	s.Run()
	r.VirtNs = s.Now()
}

// runC10Rich: the same stable-point oracle over the richer caller scenario shared with C02
// (staggered arrivals, hold times, cancellations, poll / backlog timeouts and releases on a
// 1 ms grid): stale subscriptions of callers that gave up, waiters that re-queue, releases that
// coincide with give-ups. Whenever nothing can run, no caller may be blocked while capacity is free.
func runC10Rich(r *Run) {
	sc := drawScen(r, scenOpts{
		kinds: []string{"blocking", "blocking", "deadline", "queue", "queue", "lifo-ctor", "fifo-ctor", "fixedpool", "pool"}, strategies: []string{"simple", "precise", "lookup"},
		maxClients: scale(5, 7), arrivals: []time.Duration{0, 0, ms, 2 * ms}, holds: []time.Duration{0, ms, 2 * ms},
		qTimeouts: []time.Duration{3 * ms, time.Second, time.Hour}, bTimeouts: []time.Duration{0, 2 * ms, time.Hour},
		deadlines: []time.Duration{5 * ms, time.Hour}, cancelPct: 40, cancelTimes: []time.Duration{ms, 2 * ms, 3 * ms},
		backlogs: []int{4}, limits: []int{1, 2}, relTimes: []time.Duration{0, ms, 2 * ms, 3 * ms},
		preHeldAll: true, cancelOnReleasePct: 65,
		ctxDeadlinePct: 15, ctxDeadlines: []time.Duration{ms / 2, ms + ms/2, 2*ms + ms/2, 700 * ms},
	})
	if sc == nil {
		return
	}
	s := sc.s
	sc.start()
	cfg := sc.cfg
	s.OnQuiescent = func() {
		if s.cur != nil && s.cur.curOp != nil && s.cur.curOp.Name == "complete" {
			for _, cl := range sc.clients {
				if cl.tk.MidOp() && cl.tk.curOp.Name == "acquire" {
					r.Probe("release_overlapped_waiter_midop")
					r.Nontrivial = true
				} else if cl.tk.BlockedInOp("acquire") {
					r.Probe("release_while_waiter_asleep")
					r.Nontrivial = true
				}
			}
		}
	}
	s.OnStable = func() {
		if sc.midOp() {
			return
		}
		blocked := sc.blockedClients()
		if blocked == 0 {
			return
		}
		free := int64(cfg.Limit) - sc.st.Out.Load()
		if busy, ok := sc.st.Busy(); ok && int64(cfg.Limit-busy) < free {
			free = int64(cfg.Limit - busy)
		}
		if free > 0 {
			r.Probe("stable_with_blocked_waiter_and_free_capacity")
			s.Fail("lost-wakeup", cfg.Key(), "stable point at t=%s: %d caller(s) blocked in Acquire while %d unit(s) of capacity are free (limit %d) and nothing else can run; no further release, timeout or cancellation should be needed [%s]", fmtDur(s.Now()), blocked, free, cfg.Limit, cfg)
		}
	}
	s.OnDrain = sc.drainHeld
	s.Run()
	r.VirtNs = s.Now()
	sc.commonProbes()
}
