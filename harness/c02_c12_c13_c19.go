package harness

import (
	"math"
	"time"

	"github.com/platinummonkey/go-concurrency-limits/core"
)

const (
	ms = time.Millisecond
)

var allStackKinds = []string{"default", "blocking", "deadline", "queue", "queue", "lifo-ctor", "fifo-ctor", "fixedpool", "pool"}

func init() {
	Register(&Prop{
		ID: "C02", Bubble: true, Run: runC02, QuickRuns: 2000,
		ExpectedProbes: []string{"caller_blocked", "caller_refused", "blocked_then_granted", "blocked_then_refused", "gave_up_after_cancel"},
		Rule: "one run = one seeded scenario (limiter stack among default/blocking/deadline/queue FIFO+LIFO/deprecated ctors/pools over simple/precise/lookup/predicate strategies, limit 1..3, 1..6 callers with arrival/hold instants on a 1 ms grid, timeouts and deadlines on the same grid so that give-ups coincide with releases, cancellations, all three outcomes) under one seeded schedule; " +
			"oracle at every stable point and after draining: strategy busy == partition bins == limiter in-flight gauge == harness ledger, queue_size gauge == callers blocked, listener!=nil iff ok, full limit admitted again; " +
			"non-trivial = some caller blocked in Acquire or was refused; distinct = distinct event hashes",
		Real:       []string{"limiter.*", "strategy.*", "patterns/pool", "limit.FixedLimit"},
		Stubs:      []string{"logger", "recording metric registry (queue gauges)"},
		FaultKinds: []string{"F-preempt", "F-cancel", "F-timeout", "F-outcome"},
		Assumptions: []string{"cancellation is injected only while the target is not parked inside an operation (keeps select choices deterministic)",
			"virtual time advances only when no task is runnable"},
	})
	Register(&Prop{
		ID: "C12", Bubble: true, Run: runC12, QuickRuns: 2500,
		ExpectedProbes: []string{"simultaneous_arrivals_inside_acquire", "solo_acquire_checked", "blocked_then_refused", "gave_up_after_cancel"},
		Rule: "one run = queue limiter (config FIFO/LIFO/default, deprecated ctors, queue pools), backlog 1..4, limit 1..2, 2..7 arrivals (several simultaneous), releases, timeouts and cancellations on a 1 ms grid, one seeded schedule; " +
			"oracle: at every quiescent point callers blocked <= max backlog; at stable points queue_size gauge == callers blocked; an Acquire that ran solo from a stable state must be granted / refused at once / blocked exactly as the sequential model says; " +
			"non-trivial = at least two Acquire calls were inside the limiter at the same time or a give-up coincided with a release instant; distinct = distinct event hashes",
		Real:       []string{"limiter.QueueBlockingLimiter", "limiter.DefaultLimiter", "strategy.*", "patterns/pool"},
		Stubs:      []string{"recording metric registry", "logger"},
		FaultKinds: []string{"F-preempt", "F-cancel", "F-timeout"},
	})
	Register(&Prop{
		ID: "C13", Bubble: true, Run: runC13, QuickRuns: 3500,
		ExpectedProbes: []string{"returned_exactly_at_bound", "refused_at_arrival", "precancelled_or_late_call_with_free_capacity", "legitimately_blocked_at_end"},
		Rule: "one run = blocking / deadline / queue limiter with all capacity held for the whole run (variant A) or released on the same 1 ms grid as the bounds (variant B); callers arrive at grid instants with backlog timeouts (1 ns .. 1 h, 0 = documented default 1 s), deadlines at/before/after creation and arrival, cancellations before/at/after arrival; " +
			"oracle on the virtual clock: a refused blocked call returned exactly at its bound (arrival+timeout, deadline, cancel instant), never earlier, never later; calls with an already-cancelled context or after the deadline are refused at the arrival instant without consuming capacity; " +
			"non-trivial = at least one caller was blocked and returned at a bound; distinct = distinct event hashes",
		Real:        []string{"limiter.BlockingLimiter", "limiter.DeadlineLimiter", "limiter.QueueBlockingLimiter", "limiter.DefaultLimiter", "strategy.*"},
		Stubs:       []string{"logger", "recording metric registry"},
		FaultKinds:  []string{"F-timeout", "F-cancel", "F-preempt"},
		Assumptions: []string{"synctest fake clock: timers fire at exact instants; equality instants are explored on purpose"},
	})
	Register(&Prop{
		ID: "C19", Bubble: true, Run: runC19, QuickRuns: 3500,
		ExpectedProbes: []string{"more_callers_than_limit", "blocked_then_granted"},
		Rule: "one run = FixedPool or Pool (random/FIFO/LIFO), limit 1..4, callers <= limit + backlog, hold times on the virtual clock whose sum stays below the backlog timeout, staggered or simultaneous arrivals, one seeded schedule; " +
			"oracle: tokens held <= limit at every quiescent point; when the schedule ends every caller was granted; " +
			"non-trivial = more callers than the limit (somebody had to wait); distinct = distinct event hashes",
		Real:       []string{"patterns/pool.FixedPool", "patterns/pool.Pool", "limiter.QueueBlockingLimiter", "limiter.BlockingLimiter", "limiter.DefaultLimiter", "strategy.PreciseStrategy", "strategy.SimpleStrategy"},
		Stubs:      []string{"logger", "recording metric registry"},
		FaultKinds: []string{"F-preempt"},
	})
}

func runC02(r *Run) {
	sc := drawScen(r, scenOpts{
		kinds: allStackKinds, strategies: []string{"simple", "precise", "lookup", "predicate"},
		maxClients: scale(6, 8), arrivals: []time.Duration{0, ms, 2 * ms, 3 * ms}, holds: []time.Duration{0, ms, 2 * ms, time.Second},
		qTimeouts: []time.Duration{ms, 2 * ms, 3 * ms, time.Second, -1}, bTimeouts: []time.Duration{0, ms, time.Hour},
		sharedCtxPct: 20, prePumpPct: 30,
		deadlines: []time.Duration{2 * ms, 5 * ms, time.Hour}, cancelPct: 30, cancelOnReleasePct: 35, cancelTimes: []time.Duration{0, ms, 2 * ms, 3 * ms},
		ctxDeadlinePct: 15, ctxDeadlines: []time.Duration{ms / 2, ms + ms/2, 2*ms + ms/2, 700 * ms}, // caller contexts with their own deadline (some already expired on arrival), off the 1 ms grid
		backlogs: []int{1, 2, 4}, limits: []int{1, 2, 3}, relTimes: []time.Duration{0, ms, 2 * ms, 3 * ms},
	})
	if sc == nil {
		return
	}
	s := sc.s
	s.LagPct = []int{0, 0, 8, 20}[r.T.Intn(4, "lag-pct")] // F-lag: a slow caller parked mid-operation while time passes (conservation does not depend on instants)
	sc.start()
	s.OnStable = func() { sc.conservation("stable point at t=" + fmtDur(s.Now())) }
	s.OnDrain = sc.drainHeld
	s.AfterDrain = sc.afterDrain
	s.Run()
	r.VirtNs = s.Now()
	if s.Lags > 0 {
		r.Fault("F-lag")
	}
	sc.commonProbes()
}

func (sc *scen) commonProbes() {
	r := sc.r
	for _, cl := range sc.clients {
		if cl.acq == nil {
			continue
		}
		if cl.acq.Blocked {
			r.Probe("caller_blocked")
			r.Nontrivial = true
		}
		if cl.returned && !cl.granted {
			r.Probe("caller_refused")
			r.Nontrivial = true
			if cl.acq.Blocked {
				r.Probe("blocked_then_refused")
				if cl.canceled.Load() {
					r.Probe("gave_up_after_cancel")
				} else {
					r.Fault("F-timeout")
				}
			}
		}
		if cl.returned && cl.granted && cl.acq.Blocked {
			r.Probe("blocked_then_granted")
		}
	}
}

type c12pre struct {
	out     int64
	blocked int
}

func effBacklog(n int) int {
	if n <= 0 {
		return 100
	}
	return n
}

func runC12(r *Run) {
	sc := drawScen(r, scenOpts{
		kinds: []string{"queue", "queue", "queue", "lifo-ctor", "fifo-ctor", "pool", "fixedpool"}, strategies: []string{"simple", "precise"},
		maxClients: scale(7, 9), arrivals: []time.Duration{0, 0, ms, 2 * ms}, holds: []time.Duration{0, ms, 2 * ms},
		qTimeouts: []time.Duration{ms, 2 * ms, 3 * ms, time.Second, -1, 1}, bTimeouts: []time.Duration{time.Second}, // -1: no backlog timeout; 1 ns: used up almost at once
		sharedCtxPct: 20,
		cancelPct:    25, cancelOnReleasePct: 35, cancelTimes: []time.Duration{ms, 2 * ms, 3 * ms},
		ctxDeadlinePct: 15, ctxDeadlines: []time.Duration{ms / 2, ms + ms/2, 2*ms + ms/2, 700 * ms},
		backlogs: []int{1, 2, 3, 4, 1, 2, 3, -1, 0}, limits: []int{1, 2}, relTimes: []time.Duration{0, ms, 2 * ms, 3 * ms},
		queueOnly: true,
	})
	if sc == nil {
		return
	}
	s := sc.s
	// F-lag in a quarter of the runs: a caller parked mid-operation while time passes. The backlog invariants do not
	// depend on instants; the solo-operation model below does (a lagging caller may use up its timeout without ever
	// being seen blocked) and is only evaluated in the lag-free runs.
	s.LagPct = []int{0, 0, 0, 10}[r.T.Intn(4, "lag-pct")]
	maxB := effBacklog(sc.cfg.Backlog)
	sc.start()
	s.OnCall = func(t *Task, op *OpRec) {
		if op.Name == "acquire" {
			op.Pre = c12pre{out: sc.st.Out.Load(), blocked: sc.blockedClients()}
		}
	}
	checked := map[*OpRec]bool{}
	s.OnQuiescent = func() {
		b := sc.blockedClients()
		if b > maxB {
			s.Fail("backlog-overflow", sc.cfg.Key(), "%d callers are blocked in Acquire but the backlog maximum is %d [%s]", b, maxB, sc.cfg)
			return
		}
		inside := 0
		for _, cl := range sc.clients {
			if cl.acq != nil && !cl.returned && cl.tk.MidOp() {
				inside++
			}
		}
		if inside >= 2 {
			r.Probe("simultaneous_arrivals_inside_acquire")
			r.Nontrivial = true
		}
		// at any moment: an element is in the backlog only while its caller is inside Acquire - a caller that has returned
		// (granted or refused) has left it, also while the release that served it is still busy with other waiters
		insideAcquire := 0
		for _, cl := range sc.clients {
			if cl.acq != nil && !cl.returned {
				insideAcquire++
			}
		}
		{
			var q int
			var okq bool
			if RootCall(func() { q, okq = sc.st.QueueSize() }) && okq && q > insideAcquire {
				s.Fail("backlog-mismatch", sc.cfg.Key()+"/after-return", "t=%s: the queue_size gauge reports %d but only %d caller(s) are inside Acquire: a caller that has returned is still counted [%s]", fmtDur(s.Now()), q, insideAcquire, sc.cfg)
				return
			}
		}
		// exactness whenever no caller is in the middle of an operation (also while goroutines the limiter may
		// have spawned are still pending): a caller that has returned from Acquire has left the backlog
		callerMidOp := false
		for _, tk := range s.tasks {
			if !tk.adopted && tk.MidOp() {
				callerMidOp = true
			}
		}
		if !callerMidOp {
			var q int
			var okq bool
			if RootCall(func() { q, okq = sc.st.QueueSize() }) && okq && q != b {
				s.Fail("backlog-mismatch", sc.cfg.Key()+"/after-return", "t=%s: no caller is inside an operation, %d caller(s) are blocked in Acquire, but the queue_size gauge reports %d [%s]", fmtDur(s.Now()), b, q, sc.cfg)
				return
			}
		}
		// solo operations must follow the sequential model
		for _, cl := range sc.clients {
			op := cl.acq
			if op == nil || !op.settled || checked[op] || s.LagPct > 0 {
				continue
			}
			checked[op] = true
			pre, ok := op.Pre.(c12pre)
			if !ok || !op.Solo {
				continue
			}
			r.Probe("solo_acquire_checked")
			free := int64(sc.cfg.Limit) - pre.out
			switch {
			case free > 0 && pre.blocked == 0:
				if op.Blocked || !cl.granted {
					s.Fail("refused-with-room", sc.cfg.Key(), "an Acquire that ran alone with %d free unit(s) and an empty backlog was not granted at once [%s]", free, sc.cfg)
				}
			case free <= 0 && pre.blocked >= maxB:
				if op.Blocked || !cl.returned || cl.granted || op.RetT != op.CallT {
					s.Fail("wait-with-full-backlog", sc.cfg.Key(), "an Acquire arriving with the backlog full (%d/%d) was not refused immediately (blocked=%v returned=%v granted=%v) [%s]", pre.blocked, maxB, op.Blocked, cl.returned, cl.granted, sc.cfg)
				}
			case free <= 0 && pre.blocked < maxB:
				ctxExpired := cl.spec.ctxDeadline > 0 && int64(cl.spec.ctxDeadline) <= op.CallT // the caller's context deadline had passed on arrival
				if !op.Blocked && !((cl.canceled.Load() || ctxExpired) && sc.cfg.Evict) {
					s.Fail("refused-with-backlog-room", sc.cfg.Key(), "an Acquire arriving at the limit with backlog %d/%d neither waited nor was granted (returned=%v granted=%v) [%s]", pre.blocked, maxB, cl.returned, cl.granted, sc.cfg)
				}
			}
		}
	}
	s.OnStable = func() {
		if sc.midOp() {
			return
		}
		if q, ok := sc.st.QueueSize(); ok {
			if b := sc.blockedClients(); q != b {
				s.Fail("backlog-mismatch", sc.cfg.Key(), "stable point at t=%s: queue_size gauge reports %d but %d caller(s) are blocked in Acquire [%s]", fmtDur(s.Now()), q, b, sc.cfg)
			}
			if q > maxB {
				s.Fail("backlog-overflow", sc.cfg.Key(), "queue_size %d exceeds the maximum %d", q, maxB)
			}
		}
		if g := sc.st.Reg.Gauge(core.MetricQueueLimit); g != nil {
			if v, ok := g.Value(); ok && int(v) != maxB {
				s.Fail("backlog-bound-wrong", sc.cfg.Key(), "the queue limiter reports a backlog bound of %v; configured %d means %d (documented default 100 for values <= 0) [%s]", v, sc.cfg.Backlog, maxB, sc.cfg)
			}
		}
	}
	s.OnDrain = sc.drainHeld
	s.Run()
	r.VirtNs = s.Now()
	sc.commonProbes()
}

func runC13(r *Run) {
	t := r.T
	variantB := t.Chance(35, "variant-b")
	variantC := !variantB && t.Chance(25, "variant-c") // capacity partly free: already-cancelled / past-deadline calls must still be refused
	o := scenOpts{
		kinds: []string{"queue", "queue", "deadline", "deadline", "blocking", "lifo-ctor", "fifo-ctor", "pool"}, strategies: []string{"simple", "precise"},
		maxClients: 4, arrivals: []time.Duration{0, ms, 2 * ms}, holds: []time.Duration{0, ms},
		qTimeouts: []time.Duration{1, ms, 2 * ms, time.Hour, 0, -1, -time.Second}, bTimeouts: []time.Duration{0, time.Hour},
		sharedCtxPct: 20,
		deadlines:    []time.Duration{0, ms, 2 * ms, 5 * time.Second, -ms, DeadlineZeroTime, DeadlineFarFuture},
		cancelPct:    50, cancelTimes: []time.Duration{0, ms, 2 * ms, 3 * ms},
		backlogs: []int{10}, limits: []int{1, 2}, relTimes: []time.Duration{ms, 2 * ms, 3 * ms, 2*ms - 1, 2*ms + 1},
		preHeldAll: !variantC, noReleases: !variantB,
		// caller contexts with their own deadline, off the 1 ms grid so they never coincide with a timeout
		ctxDeadlinePct: 20, ctxDeadlines: []time.Duration{ms / 2, ms + ms/2, 2*ms + ms/2, 700 * ms},
	}
	if variantC {
		o.kinds = []string{"blocking", "deadline", "deadline", "pool"}
		o.cancelPct = 70
		o.cancelTimes = []time.Duration{0, 0, ms}
	}
	sc := drawScen(r, o)
	if sc == nil {
		return
	}
	if sc.cfg.Kind == "pool" && sc.cfg.Ordering == "random" && sc.cfg.Timeout > 0 {
		// BlockingLimiter with a poll timeout: same as "blocking"
	}
	s := sc.s
	if variantB {
		// F-lag (strict): a releaser may be slow in the middle of its release; callers that were themselves
		// runnable while time passed are not judged on exact instants (they must still return)
		s.LagPct = []int{0, 0, 15}[t.Intn(3, "lag-pct")]
		s.LagStrict = true
	} else if !variantC {
		// all capacity held: a caller may be slow in the middle of Acquire (descheduled thread) while its bound
		// passes; it is not judged on the exact instant, but it must come back
		s.LagPct = []int{0, 0, 0, 15}[t.Intn(4, "lag-pct-a")]
		s.LagStrict = true
	}
	sc.start()
	s.OnDrain = sc.drainHeld
	cfg := sc.cfg
	isQueue := cfg.IsQueueKind()
	isBlocking := cfg.Kind == "blocking" || ((cfg.Kind == "pool" || cfg.Kind == "fixedpool") && cfg.Ordering == "random")
	if variantC {
		s.OnEnd = func() {
			for i, cl := range sc.clients {
				if cl.acq == nil || !cl.returned {
					continue
				}
				arrive := cl.acq.CallT
				mustRefuse := ""
				if (isBlocking || cfg.Kind == "deadline") && cl.canceled.Load() && (cl.spec.preCancel || cl.cancelStep < cl.acq.Call) {
					mustRefuse = "its context was already cancelled"
				}
				if cfg.Kind == "deadline" && arrive >= int64(cfg.Deadline) {
					mustRefuse = "the deadline had been reached" // the instant equal to the deadline counts as passed
				}
				if mustRefuse == "" {
					continue
				}
				r.Probe("precancelled_or_late_call_with_free_capacity")
				r.Nontrivial = true
				if cl.granted {
					s.Fail("granted-after-bound", cfg.Key(), "caller %d arrived at %s when %s, yet it was granted a token (capacity was free) [%s]", i, fmtDur(arrive), mustRefuse, cfg)
					return
				}
				if cl.acq.RetT != arrive {
					s.Fail("blocked-past-bound", cfg.Key(), "caller %d arrived at %s when %s but was refused only at %s [%s]", i, fmtDur(arrive), mustRefuse, fmtDur(cl.acq.RetT), cfg)
					return
				}
			}
			if sc.midOp() {
				return
			}
			if busy, ok := sc.st.Busy(); ok && int64(busy) != sc.st.Out.Load() {
				s.Fail("busy-mismatch", cfg.Key(), "strategy busy count %d but %d grants are outstanding: a refused call consumed capacity", busy, sc.st.Out.Load())
			}
		}
	} else {
		s.OnEnd = c13End(r, sc, variantB, isQueue, isBlocking)
	}
	s.Run()
	r.VirtNs = s.Now()
	sc.commonProbes()
}

func c13End(r *Run, sc *scen, variantB, isQueue, isBlocking bool) func() {
	s, cfg := sc.s, sc.cfg
	return func() {
		end := s.Now()
		for i, cl := range sc.clients {
			if cl.acq == nil {
				continue
			}
			lagged := cl.tk.Lagged // exact instants are not judged (its lateness may be the scheduler's doing); never returning is
			arrive := cl.acq.CallT
			const never = int64(1) << 62
			bound := never
			cancelApplies := isBlocking || cfg.Kind == "deadline" || (isQueue && cfg.Evict)
			switch {
			case isQueue:
				te := cfg.Timeout
				if te == 0 || (te < 0 && (cfg.Kind == "pool" || cfg.Kind == "fixedpool")) {
					te = time.Second // documented default; the pools clamp a negative timeout to 0 first
				}
				if te > 0 {
					bound = arrive + int64(te)
				} // a negative backlog timeout is the documented way to wait without a timeout

			case cfg.Kind == "deadline":
				d := int64(cfg.Deadline) // creation is virtual instant 0
				if d < arrive {
					d = arrive
				}
				bound = d
			}
			if cancelApplies && cl.canceled.Load() {
				c := cl.cancelT
				if cl.spec.preCancel || c < arrive {
					c = arrive
				}
				if c < bound {
					bound = c
				}
			}
			if cancelApplies && cl.spec.ctxDeadline > 0 {
				c := int64(cl.spec.ctxDeadline)
				if c < arrive {
					c = arrive
				}
				if c < bound {
					bound = c
				}
			}
			who := func() string {
				return "caller " + itoa(i) + " (arrived " + fmtDur(arrive) + ", bound " + fmtDur(bound) + ")"
			}
			if lagged {
				// a delayed caller comes back late, but it comes back: the run has ended because nothing can happen any
				// more (hours of virtual time passed idle), so a caller still inside Acquire is blocked without any bound
				if !cl.returned && bound != never && !s.Truncated && end >= bound+int64(2*time.Hour) {
					s.Fail("blocked-past-bound", cfg.Key()+"/never-returns", "%s was delayed in the middle of Acquire and then never returned: still blocked at %s with nothing left that could wake it [%s]", who(), fmtDur(end), cfg)
				}
				continue
			}
			if cl.returned && !cl.granted {
				if !cl.acq.Blocked && cl.acq.RetT == arrive {
					// immediate refusal: legal only at/after the bound (already cancelled, deadline passed)
					if bound > arrive {
						// a queue limiter refuses immediately only with a full backlog (size 10 here: impossible)
						s.Fail("refused-before-bound", cfg.Key(), "%s was refused immediately although its bound had not been reached and no capacity question arose [%s]", who(), cfg)
					} else {
						r.Probe("refused_at_arrival")
						r.Nontrivial = true
					}
					continue
				}
				if cl.acq.RetT < bound {
					s.Fail("refused-before-bound", cfg.Key(), "%s returned refused at %s, before its bound [%s]", who(), fmtDur(cl.acq.RetT), cfg)
				} else if cl.acq.RetT > bound {
					s.Fail("blocked-past-bound", cfg.Key(), "%s returned refused at %s, after its bound [%s]", who(), fmtDur(cl.acq.RetT), cfg)
				} else {
					r.Probe("returned_exactly_at_bound")
					r.Nontrivial = true
				}
				continue
			}
			if cl.returned && cl.granted {
				if !variantB {
					s.Fail("granted-without-capacity", cfg.Key(), "%s was granted although all capacity was held for the whole run [%s]", who(), cfg)
				} else if cl.acq.RetT > bound {
					s.Fail("blocked-past-bound", cfg.Key(), "%s was granted at %s, after its bound [%s]", who(), fmtDur(cl.acq.RetT), cfg)
				}
				continue
			}
			// not returned
			if bound != never && end >= bound {
				s.Fail("blocked-past-bound", cfg.Key(), "%s is still blocked at %s, past its bound [%s]", who(), fmtDur(end), cfg)
			} else {
				r.Probe("legitimately_blocked_at_end")
			}
		}
		if s.Failed() == nil && !variantB {
			// refused calls hold no capacity
			if busy, ok := sc.st.Busy(); ok && busy != cfg.Limit {
				s.Fail("busy-mismatch", cfg.Key(), "strategy busy count %d but exactly the %d pre-held tokens are outstanding", busy, cfg.Limit)
			}
		}
	}
}

func itoa(i int) string {
	if i == 0 {
		return "0"
	}
	neg := i < 0
	if neg {
		i = -i
	}
	var b []byte
	for i > 0 {
		b = append([]byte{byte('0' + i%10)}, b...)
		i /= 10
	}
	if neg {
		b = append([]byte{'-'}, b...)
	}
	return string(b)
}

func runC19(r *Run) {
	t := r.T
	limit := 1 + t.Intn(4, "limit")
	backlog := 1 + t.Intn(4, "backlog")
	sc := drawScen(r, scenOpts{
		kinds: []string{"fixedpool", "pool"}, strategies: []string{"simple", "precise"},
		maxClients: limit + backlog, arrivals: []time.Duration{0, 0, ms, 2 * ms}, holds: []time.Duration{0, ms, 2 * ms},
		qTimeouts: []time.Duration{time.Second, time.Hour, time.Duration(math.MaxInt64)}, bTimeouts: []time.Duration{0, time.Second}, // (the largest duration: "wait for ever")
		backlogs: []int{backlog}, limits: []int{limit},
		relTimes: []time.Duration{0},
	})
	if sc == nil {
		return
	}
	// no pre-held tokens in this scenario
	if len(sc.preHeld) > 0 {
		for _, l := range sc.preHeld {
			l.OnIgnore()
			sc.st.Out.Add(-1)
			sc.decPre()
		}
		sc.preHeld, sc.releases = nil, nil
	}
	s := sc.s
	sc.start()
	cfg := sc.cfg
	// after the burst: one more caller uses the pool repeatedly, long enough for the pool's limiter to close a
	// sampling window (10 samples, 1 s) - it must be served every time
	serialRounds, serialDone := 0, 0
	if t.Chance(40, "late-serial-caller") {
		serialRounds = 12
		s.Go("serial-caller", func(tk *Task) {
			tk.Sleep(3 * time.Second)
			for k := 0; k < serialRounds; k++ {
				tk.Begin("acquire", "serial")
				l, ok := sc.st.Lim.Acquire(sc.st.PartCtx(tk.Ctx, ""))
				tk.End(ok)
				if !ok || l == nil {
					s.Fail("caller-refused", cfg.Key(), "the only caller left (round %d of %d, t=%s) was refused by an idle pool [%s]", k, serialRounds, fmtDur(s.Now()), cfg)
					return
				}
				sc.st.Out.Add(1)
				tk.Sleep(100 * ms)
				tk.Begin("complete", "success")
				sc.st.Out.Add(-1)
				l.OnSuccess()
				tk.End(nil)
				serialDone++
			}
		})
	}
	// callers that come back: as many looping callers as the backlog bound leaves room for next to the burst
	// (callers in total never exceed limit + backlog), each acquiring, holding and releasing several times
	loopers := 0
	if room := limit + backlog - len(sc.clients); room > 0 && t.Chance(50, "looping-callers") {
		loopers = 1 + t.Intn(room, "loopers")
	}
	loopDone := make([]int, loopers)
	loopRounds := make([]int, loopers)
	for li := 0; li < loopers; li++ {
		li := li
		loopRounds[li] = 2 + t.Intn(3, "loop-rounds")
		start := []time.Duration{0, ms, 2 * ms}[t.Intn(3, "loop-start")]
		var holds, pauses []time.Duration
		for k := 0; k < loopRounds[li]; k++ {
			holds = append(holds, []time.Duration{0, ms, 2 * ms}[t.Intn(3, "loop-hold")])
			pauses = append(pauses, []time.Duration{0, 0, ms}[t.Intn(3, "loop-pause")])
		}
		s.Go("looping-caller", func(tk *Task) {
			tk.Sleep(start)
			for k := 0; k < loopRounds[li]; k++ {
				tk.Begin("acquire", "loop")
				l, ok := sc.st.Lim.Acquire(sc.st.PartCtx(tk.Ctx, ""))
				tk.End(ok)
				if !ok || l == nil {
					s.Fail("caller-refused", cfg.Key(), "looping caller %d was refused in round %d at %s although callers never exceed limit + backlog and every holder releases within milliseconds [%s]", li, k, fmtDur(s.Now()), cfg)
					return
				}
				sc.st.Out.Add(1)
				tk.Sleep(holds[k])
				tk.Begin("complete", "success")
				sc.st.Out.Add(-1)
				l.OnSuccess()
				tk.End(nil)
				loopDone[li]++
				tk.Sleep(pauses[k])
			}
		})
	}
	// a second wave, long after the burst: holders that keep their tokens longer than the backlog timeout; an early
	// waiter gives up (legitimately: nothing was released in its time); a newcomer queues after that and IS within
	// its timeout when the holders release - it must be served
	newcomer, newcomerOK := false, false
	if cfg.Ordering != "random" && cfg.Timeout == time.Second && t.Chance(40, "timed-out-waiter-then-newcomer") {
		newcomer = true
		t0 := 20 * time.Second
		for h := 0; h < cfg.Limit; h++ {
			s.Go("long-holder", func(tk *Task) {
				tk.Sleep(t0)
				l, ok := sc.st.Lim.Acquire(sc.st.PartCtx(tk.Ctx, ""))
				if !ok || l == nil {
					return // (the serial caller may hold a token around t0; the wave then simply has fewer holders)
				}
				sc.st.Out.Add(1)
				tk.Sleep(1500 * ms)
				tk.Begin("complete", "success")
				sc.st.Out.Add(-1)
				l.OnSuccess()
				tk.End(nil)
			})
		}
		s.Go("impatient-waiter", func(tk *Task) {
			tk.Sleep(t0 + ms)
			if l, ok := sc.st.Lim.Acquire(sc.st.PartCtx(tk.Ctx, "")); ok && l != nil {
				l.OnIgnore() // granted after all (fewer holders than the limit)
			}
		})
		s.Go("newcomer", func(tk *Task) {
			tk.Sleep(t0 + 1200*ms)
			tk.Begin("acquire", "newcomer")
			l, ok := sc.st.Lim.Acquire(sc.st.PartCtx(tk.Ctx, ""))
			tk.End(ok)
			if ok && l != nil {
				newcomerOK = true
				sc.st.Out.Add(1)
				tk.Begin("complete", "success")
				sc.st.Out.Add(-1)
				l.OnSuccess()
				tk.End(nil)
			}
		})
	}
	s.OnQuiescent = func() {
		if out := sc.st.Out.Load(); out > int64(cfg.Limit) {
			s.Fail("over-admission", cfg.Key(), "%d tokens are held at once but the pool limit is %d [%s]", out, cfg.Limit, cfg)
		}
	}
	s.OnEnd = func() {
		if s.Truncated {
			return
		}
		for i, cl := range sc.clients {
			if cl.acq == nil {
				continue
			}
			if !cl.returned {
				s.Fail("caller-never-served", cfg.Key(), "caller %d is still waiting when nothing else can happen (%d of limit %d held) [%s]", i, sc.st.Out.Load(), cfg.Limit, cfg)
				return
			}
			if !cl.granted {
				s.Fail("caller-refused", cfg.Key(), "caller %d (arrived %s) was refused at %s although every holder releases well within the backlog timeout and the backlog bound was respected [%s]", i, fmtDur(cl.acq.CallT), fmtDur(cl.acq.RetT), cfg)
				return
			}
		}
		for li := range loopDone {
			if loopDone[li] != loopRounds[li] {
				s.Fail("caller-never-served", cfg.Key(), "looping caller %d completed %d of %d rounds and is stuck [%s]", li, loopDone[li], loopRounds[li], cfg)
				return
			}
		}
		if loopers > 0 {
			r.Probe("looping_callers")
		}
		if newcomer {
			r.Probe("newcomer_after_a_timed_out_waiter")
			if !newcomerOK {
				s.Fail("caller-refused", cfg.Key()+"/after-timed-out-waiter", "holders took their tokens at 20 s and release them at 21.5 s; a waiter that queued at 20.001 s gave up after its 1 s backlog timeout; a newcomer queued at 21.2 s and was refused although the release at 21.5 s is well within its timeout [%s]", cfg)
				return
			}
		}
		if serialDone != serialRounds {
			s.Fail("caller-never-served", cfg.Key(), "the serial caller completed %d of %d rounds and is stuck although nobody else uses the pool [%s]", serialDone, serialRounds, cfg)
			return
		}
		if serialRounds > 0 {
			r.Probe("serial_caller_through_a_window")
		}
	}
	s.Run()
	r.VirtNs = s.Now()
	sc.commonProbes()
	if len(sc.clients) > cfg.Limit {
		r.Nontrivial = true
		r.Probe("more_callers_than_limit")
	}
}
