//go:build race

package harness

import (
	"os"
	"path/filepath"
	"runtime"
	"sort"
	"strings"
)

const RaceBuild = true

func raceOff() { runtime.RaceDisable() }
func raceOn()  { runtime.RaceEnable() }

func raceErrors() int { return runtime.RaceErrors() }

var raceLogOff = map[string]int{}

// lastRaceReport parses the newest report from the GORACE log files and
// returns a stable key (the two racing functions, sorted) and the report text.
func lastRaceReport() (key, text string) {
	base := os.Getenv("VERIF_RACE_LOG")
	if base == "" {
		return "", "(no race log configured)"
	}
	files, _ := filepath.Glob(base + ".*")
	var fresh string
	for _, f := range files {
		b, err := os.ReadFile(f)
		if err != nil {
			continue
		}
		off := raceLogOff[f]
		if off < len(b) {
			fresh += string(b[off:])
			raceLogOff[f] = len(b)
		}
	}
	i := strings.Index(fresh, "WARNING: DATA RACE")
	if i < 0 {
		return "", fresh
	}
	rep := fresh[i:]
	if j := strings.Index(rep, "=================="); j > 0 {
		rep = rep[:j]
	}
	var fns []string
	lines := strings.Split(rep, "\n")
	for k, l := range lines {
		t := strings.TrimSpace(l)
		if (strings.HasPrefix(t, "Write at") || strings.HasPrefix(t, "Read at") || strings.HasPrefix(t, "Previous write at") || strings.HasPrefix(t, "Previous read at")) && k+1 < len(lines) {
			// first frame inside the repository under test
			fn := ""
			for m := k + 1; m < len(lines) && strings.TrimSpace(lines[m]) != ""; m += 2 {
				f := strings.TrimSpace(lines[m])
				if fn == "" {
					fn = f
				}
				if strings.Contains(f, "go-concurrency-limits/") {
					fn = f
					break
				}
			}
			if p := strings.LastIndex(fn, "go-concurrency-limits/"); p >= 0 {
				fn = fn[p+len("go-concurrency-limits/"):]
			}
			if p := strings.Index(fn, "("); p > 0 && strings.HasSuffix(fn, ")") && !strings.Contains(fn[p:], "*") {
				fn = fn[:strings.LastIndex(fn, "(")]
			} else if strings.HasSuffix(fn, "()") {
				fn = strings.TrimSuffix(fn, "()")
			}
			// coarse key: the receiver type (or package-level function) only
			if p := strings.Index(fn, ")."); p > 0 {
				fn = strings.Replace(strings.Replace(fn[:p], "(*", "", 1), "(", "", 1)
			}
			dup := false
			for _, x := range fns {
				if x == fn {
					dup = true
				}
			}
			if !dup {
				fns = append(fns, fn)
			}
		}
	}
	sort.Strings(fns)
	return strings.Join(fns, " <-> "), rep
}
