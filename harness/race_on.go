//go:build race

package harness

import "runtime"

const RaceBuild = true

func raceOff() { runtime.RaceDisable() }
func raceOn()  { runtime.RaceEnable() }
