package harness

import (
	"fmt"
	"strings"
	"sync"
	"sync/atomic"

	"github.com/platinummonkey/go-concurrency-limits/core"
)

// RecRegistry is a recording core.MetricRegistry (harness stub). It keeps
// gauge suppliers and every sample, in order. It is safe for concurrent use
// (its own mutex is never held across a scheduling point).
type RecRegistry struct {
	mu       sync.Mutex
	Gauges   []*RecGauge
	Streams  []*RecStream
	Started  int
	Stopped  int
	OnSample func(st *RecStream, v float64, tags []string)
}

type RecGauge struct {
	ID       string
	Tags     []string
	Supplier core.MetricSupplier
}

type RecStream struct {
	reg    *RecRegistry
	Kind   string // distribution | timing | count
	ID     string
	Tags   []string
	Values []float64
}

func (s *RecStream) AddSample(v float64, tags ...string) {
	s.reg.mu.Lock()
	s.Values = append(s.Values, v)
	cb := s.reg.OnSample
	s.reg.mu.Unlock()
	if cb != nil {
		cb(s, v, tags)
	}
}

func (s *RecStream) Len() int {
	s.reg.mu.Lock()
	defer s.reg.mu.Unlock()
	return len(s.Values)
}

func (s *RecStream) Last() (float64, bool) {
	s.reg.mu.Lock()
	defer s.reg.mu.Unlock()
	if len(s.Values) == 0 {
		return 0, false
	}
	return s.Values[len(s.Values)-1], true
}

func (r *RecRegistry) stream(kind, id string, tags []string) *RecStream {
	r.mu.Lock()
	defer r.mu.Unlock()
	st := &RecStream{reg: r, Kind: kind, ID: id, Tags: append([]string(nil), tags...)}
	r.Streams = append(r.Streams, st)
	return st
}

func (r *RecRegistry) RegisterDistribution(ID string, tags ...string) core.MetricSampleListener {
	return r.stream("distribution", ID, tags)
}
func (r *RecRegistry) RegisterTiming(ID string, tags ...string) core.MetricSampleListener {
	return r.stream("timing", ID, tags)
}
func (r *RecRegistry) RegisterCount(ID string, tags ...string) core.MetricSampleListener {
	return r.stream("count", ID, tags)
}
func (r *RecRegistry) RegisterGauge(ID string, supplier core.MetricSupplier, tags ...string) {
	r.mu.Lock()
	defer r.mu.Unlock()
	r.Gauges = append(r.Gauges, &RecGauge{ID: ID, Tags: append([]string(nil), tags...), Supplier: supplier})
}
func (r *RecRegistry) Start() { r.mu.Lock(); r.Started++; r.mu.Unlock() }
func (r *RecRegistry) Stop()  { r.mu.Lock(); r.Stopped++; r.mu.Unlock() }

// Gauge returns the last registered gauge with this id whose tags contain all of want.
func (r *RecRegistry) Gauge(id string, want ...string) *RecGauge {
	r.mu.Lock()
	defer r.mu.Unlock()
	for i := len(r.Gauges) - 1; i >= 0; i-- {
		g := r.Gauges[i]
		if g.ID != id {
			continue
		}
		if hasAll(g.Tags, want) {
			return g
		}
	}
	return nil
}

// Stream returns the last registered stream with this id/kind whose tags contain all of want.
func (r *RecRegistry) Stream(kind, id string, want ...string) *RecStream {
	r.mu.Lock()
	defer r.mu.Unlock()
	for i := len(r.Streams) - 1; i >= 0; i-- {
		s := r.Streams[i]
		if s.ID == id && (kind == "" || s.Kind == kind) && hasAll(s.Tags, want) {
			return s
		}
	}
	return nil
}

func hasAll(tags, want []string) bool {
	for _, w := range want {
		ok := false
		for _, t := range tags {
			if t == w {
				ok = true
			}
		}
		if !ok {
			return false
		}
	}
	return true
}

func (g *RecGauge) Value() (float64, bool) {
	if g == nil {
		return 0, false
	}
	return g.Supplier()
}

func (g *RecGauge) String() string {
	return fmt.Sprintf("%s[%s]", g.ID, strings.Join(g.Tags, ","))
}

// quiet logger
type nopLogger struct{}

func (nopLogger) Debugf(msg string, params ...interface{}) {}
func (nopLogger) IsDebugEnabled() bool                     { return false }
func (nopLogger) String() string                           { return "nopLogger" }

// debugLogger exercises the debug branches (formats every message).
type debugLogger struct{ n atomic.Int64 }

func (l *debugLogger) Debugf(msg string, params ...interface{}) {
	_ = fmt.Sprintf(msg, params...)
	l.n.Add(1)
}
func (l *debugLogger) IsDebugEnabled() bool { return true }
