package harness

import (
	"context"
	"fmt"
	"sync/atomic"
	"time"

	"github.com/platinummonkey/go-concurrency-limits/core"
)

// Generic "callers against a limiter stack" scenario shared by C02, C12, C13, C19.

type clientSpec struct {
	arrive      time.Duration // sleeps this long before calling Acquire
	hold        time.Duration
	outcome     int
	cancelAt    time.Duration // absolute virtual offset; <0 = never
	preCancel   bool
	part        string
	ctxDeadline time.Duration // > 0: the caller's context carries this deadline (absolute virtual offset)
	cancelMidOp bool          // the cancellation may land while the caller is parked in the middle of Acquire
}

type client struct {
	spec       clientSpec
	tk         *Task
	acq        *OpRec
	granted    bool
	returned   bool
	canceled   atomic.Bool
	cancelT    int64
	cancelStep int // scheduler step at which the cancellation happened (-1: before the task started)
}

type relSpec struct {
	at      time.Duration
	outcome int
}

type scen struct {
	r           *Run
	s           *Sched
	st          *Stack
	cfg         StackCfg
	clients     []*client
	preHeld     []core.Listener
	releases    []relSpec
	outPart     map[string]*atomic.Int64
	sharedCtx   context.Context
	releasedPre atomic.Int64
	// counters
	maxOut int64
}

func (sc *scen) blockedClients() int {
	n := 0
	for _, c := range sc.clients {
		if c.tk.BlockedInOp("acquire") {
			n++
		}
	}
	return n
}

func (sc *scen) midOp() bool {
	for _, t := range sc.s.tasks {
		if t.MidOp() {
			return true
		}
	}
	return false
}

type scenOpts struct {
	kinds          []string
	strategies     []string
	maxClients     int
	arrivals       []time.Duration
	holds          []time.Duration
	qTimeouts      []time.Duration
	prePumpPct     int // % of the runs that start with the limiter's sample window one completion from closing
	sharedCtxPct   int // % of the runs in which the callers without a cancellation of their own pass one shared, live context
	bTimeouts      []time.Duration
	deadlines      []time.Duration
	cancelPct      int
	cancelTimes    []time.Duration
	preHeldAll     bool // root takes all capacity up front
	noReleases     bool // pre-held tokens are only released when draining
	backlogs       []int
	limits         []int
	relTimes       []time.Duration
	queueOnly      bool // pools: only the queue orderings
	ctxDeadlinePct int
	ctxDeadlines   []time.Duration
	// cancelOnReleasePct: chance that a cancellation is moved onto the instant of one of the releases and may land
	// mid-operation (the caller that has just been woken, or has just won the token, is the one cancelled)
	cancelOnReleasePct int
}

func drawScen(r *Run, o scenOpts) *scen {
	t := r.T
	var c StackCfg
	c.Kind = o.kinds[t.Intn(len(o.kinds), "kind")]
	c.Strategy = o.strategies[t.Intn(len(o.strategies), "strategy")]
	c.Limit = o.limits[t.Intn(len(o.limits), "limit")]
	c.Backlog = o.backlogs[t.Intn(len(o.backlogs), "backlog")]
	c.DebugLog = t.Chance(25, "debug-logger")
	// minimum-RTT threshold of the underlying limiter: completions faster than it leave no sample, but give their
	// capacity back like any other
	c.MinRTTThresh = []time.Duration{0, 0, ms + ms/2, 5 * ms}[t.Intn(4, "min-rtt-threshold")]
	switch c.Kind {
	case "blocking":
		c.Timeout = o.bTimeouts[t.Intn(len(o.bTimeouts), "btimeout")]
	case "deadline":
		c.Deadline = o.deadlines[t.Intn(len(o.deadlines), "deadline")]
	case "queue", "lifo-ctor", "fifo-ctor":
		if c.Kind == "queue" {
			c.Ordering = []string{"lifo", "fifo", ""}[t.Intn(3, "ordering")]
			c.Evict = t.Intn(2, "evict") == 1
		}
		c.Timeout = o.qTimeouts[t.Intn(len(o.qTimeouts), "qtimeout")]
	case "fixedpool", "pool":
		if o.queueOnly {
			c.Ordering = []string{"fifo", "lifo"}[t.Intn(2, "ordering")]
		} else {
			c.Ordering = []string{"random", "fifo", "lifo"}[t.Intn(3, "ordering")]
		}
		if c.Ordering == "random" {
			c.Timeout = o.bTimeouts[t.Intn(len(o.bTimeouts), "btimeout")]
		} else {
			c.Timeout = o.qTimeouts[t.Intn(len(o.qTimeouts), "qtimeout")]
		}
		if c.Kind == "fixedpool" {
			c.Strategy = "precise"
		}
	}
	sc := &scen{r: r, cfg: c, outPart: map[string]*atomic.Int64{"": {}, "a": {}, "b": {}, "zz": {}}}
	n := 1 + t.Intn(o.maxClients, "clients")
	for i := 0; i < n; i++ {
		sp := clientSpec{
			arrive:   o.arrivals[t.Intn(len(o.arrivals), "arrive")],
			hold:     o.holds[t.Intn(len(o.holds), "hold")],
			outcome:  t.Pick([]int{5, 2, 3}, "outcome"),
			cancelAt: -1,
		}
		if o.cancelPct > 0 && t.Chance(o.cancelPct, "cancel?") {
			k := t.Intn(len(o.cancelTimes)+1, "cancel-at")
			if k == 0 {
				sp.preCancel = true
			} else {
				sp.cancelAt = o.cancelTimes[k-1]
				sp.cancelMidOp = t.Chance(40, "cancel-midop?")
			}
		}
		if c.Strategy == "lookup" || c.Strategy == "predicate" {
			sp.part = []string{"a", "b", "a", "zz"}[t.Intn(4, "part")]
		}
		if o.ctxDeadlinePct > 0 && sp.cancelAt < 0 && !sp.preCancel && t.Chance(o.ctxDeadlinePct, "ctx-deadline?") {
			sp.ctxDeadline = o.ctxDeadlines[t.Intn(len(o.ctxDeadlines), "ctx-deadline")]
		}
		sc.clients = append(sc.clients, &client{spec: sp})
	}
	pre := 0
	if o.preHeldAll {
		pre = c.Limit
	} else {
		pre = t.Intn(c.Limit+1, "preheld")
	}
	if !o.noReleases {
		for i := 0; i < pre; i++ {
			if t.Chance(80, "release-pre?") {
				sc.releases = append(sc.releases, relSpec{at: o.relTimes[t.Intn(len(o.relTimes), "rel-at")], outcome: t.Intn(3, "rel-outcome")})
			}
		}
	}
	if o.cancelOnReleasePct > 0 && len(sc.releases) > 0 {
		for _, cl := range sc.clients {
			if cl.spec.cancelAt >= 0 && t.Chance(o.cancelOnReleasePct, "cancel-on-release?") {
				cl.spec.cancelAt = sc.releases[t.Intn(len(sc.releases), "cancel-on-which-release")].at
				cl.spec.cancelMidOp = true
			}
		}
	}
	if o.sharedCtxPct > 0 && t.Chance(o.sharedCtxPct, "shared-context") {
		sc.sharedCtx, _ = context.WithCancel(bg)
		r.Probe("callers_share_one_context")
	}
	r.Mixf("%s %s clients=%d preheld=%d shared-ctx=%v", r.P.ID, c, n, pre, sc.sharedCtx != nil)
	for i, cl := range sc.clients {
		r.Mixf("  client%d arrive=%v hold=%v outcome=%s cancelAt=%v midop=%v preCancel=%v part=%q ctxDeadline=%v", i, cl.spec.arrive, cl.spec.hold, outcomeNames[cl.spec.outcome], cl.spec.cancelAt, cl.spec.cancelMidOp, cl.spec.preCancel, cl.spec.part, cl.spec.ctxDeadline)
	}
	for i, rl := range sc.releases {
		r.Mixf("  release%d at=%v outcome=%s", i, rl.at, outcomeNames[rl.outcome])
	}
	st, err := BuildStack(c)
	if err != nil {
		r.Fail("harness", "build", "cannot build stack: %v", err)
		return nil
	}
	sc.st = st
	if o.prePumpPct > 0 && st.Default != nil && c.Kind != "deadline" && t.Chance(o.prePumpPct, "pre-pump") { // (the deadline kind counts its deadline from the construction of the stack)
		// earlier traffic: the limiter's sample window is about to close, so that it closes (and the strategy is told
		// the limit again) while tokens of this scenario are outstanding
		key := ""
		if c.Strategy == "predicate" {
			key = "a"
		}
		for i, n := 0, 9+t.Intn(3, "pre-pump-n"); i < n; i++ {
			l, ok := st.Default.Acquire(st.PartCtx(bg, key))
			if !ok || l == nil {
				r.Fail("refused-with-room", c.Key(), "sequential acquire %d of the preceding traffic refused with nothing outstanding", i+1)
				return nil
			}
			time.Sleep(c.MinRTTThresh + time.Duration(1+t.Intn(3, "pre-pump-rtt"))*time.Microsecond)
			l.OnSuccess()
		}
		r.Probe("window_about_to_close_at_start")
	}
	sc.s = r.NewSched()
	for i := 0; i < pre; i++ {
		key := ""
		if c.Strategy == "predicate" {
			key = "a" // a request matching no partition is refused by the predicate strategy
		}
		var pl core.Limiter = st.Lim
		if c.Kind == "deadline" && c.Deadline <= 0 {
			pl = st.Default // the deadline has already passed: take the tokens from the delegate
		}
		// bounded on the virtual clock: a blocking kind that wrongly refuses must not hang the driving goroutine
		pctx, pcancel := context.WithTimeout(bg, 50*time.Millisecond)
		l, ok := pl.Acquire(st.PartCtx(pctx, key))
		pcancel()
		if !ok || l == nil {
			r.Fail("refused-with-room", c.Key(), "initial acquire %d of %d refused", i+1, pre)
			return nil
		}
		sc.outPart[key].Add(1)
		st.Out.Add(1)
		sc.preHeld = append(sc.preHeld, l)
	}
	return sc
}

// start creates the client, canceller and releaser tasks.
func (sc *scen) start() {
	s, st := sc.s, sc.st
	for _, cl := range sc.clients {
		cl := cl
		cl.tk = s.Go("client", func(tk *Task) {
			if cl.spec.preCancel {
				tk.Cancel()
				cl.cancelStep = -1
				cl.canceled.Store(true)
			}
			tk.Sleep(cl.spec.arrive)
			base := tk.Ctx
			if sc.sharedCtx != nil && cl.spec.cancelAt < 0 && !cl.spec.preCancel {
				base = sc.sharedCtx // one request context fanned out to several calls: same Done channel, never cancelled
			}
			if cl.spec.ctxDeadline > 0 {
				// a context with its own deadline (expires like a cancellation at that virtual instant)
				var dcancel context.CancelFunc
				base, dcancel = context.WithDeadline(tk.Ctx, s.start.Add(cl.spec.ctxDeadline))
				defer dcancel()
			}
			ctx := st.PartCtx(base, cl.spec.part)
			tk.Begin("acquire", cl.spec.part)
			cl.acq = tk.curOp
			l, ok := st.Lim.Acquire(ctx)
			if ok {
				n := st.Out.Add(1)
				sc.outPart[cl.spec.part].Add(1)
				for {
					m := atomic.LoadInt64(&sc.maxOut)
					if n <= m || atomic.CompareAndSwapInt64(&sc.maxOut, m, n) {
						break
					}
				}
			}
			cl.granted, cl.returned = ok, true
			tk.End(ok)
			if (l != nil) != ok {
				s.Fail("listener-ok-mismatch", sc.cfg.Key(), "Acquire returned listener=%v ok=%v", l != nil, ok)
				return
			}
			if !ok {
				return
			}
			tk.Sleep(cl.spec.hold)
			tk.Begin("complete", outcomeNames[cl.spec.outcome])
			st.Out.Add(-1)
			sc.outPart[cl.spec.part].Add(-1)
			Complete(l, cl.spec.outcome)
			tk.End(nil)
		})
		if cl.spec.cancelAt >= 0 {
			s.Go("canceller", func(tk *Task) {
				tk.Sleep(cl.spec.cancelAt)
				// either wait until the target is not parked inside an operation (it is then blocked in its
				// select, or between operations), or cancel at this very scheduling step, wherever the
				// target is parked inside Acquire (the order in which a select with several ready cases
				// tries them is drawn by the simulator, so this stays replayable)
				if !cl.spec.cancelMidOp {
					if !tk.WaitFor("target-not-midop", func() bool { return !cl.tk.MidOp() }) {
						return
					}
				} else if cl.tk.MidOp() {
					sc.r.Fault("F-cancel-midop")
				}
				cl.cancelT = s.Now()
				cl.cancelStep = s.Step
				cl.canceled.Store(true)
				sc.r.Fault("F-cancel")
				cl.tk.Cancel()
			}).daemon = true
		}
	}
	for i, rl := range sc.releases {
		l := sc.preHeld[i]
		rl := rl
		s.Go("releaser", func(tk *Task) {
			tk.Sleep(rl.at)
			tk.Begin("complete", outcomeNames[rl.outcome])
			st.Out.Add(-1)
			sc.decPre()
			sc.releasedPre.Add(1)
			Complete(l, rl.outcome)
			tk.End(nil)
		})
	}
}

func (sc *scen) decPre() {
	// pre-held tokens are accounted to partition "" (or "a" for the predicate strategy)
	if sc.outPart[""].Load() > 0 {
		sc.outPart[""].Add(-1)
	} else {
		sc.outPart["a"].Add(-1)
	}
}

// drainHeld completes what the driving goroutine still holds (called from OnDrain).
func (sc *scen) drainHeld() {
	var rest []core.Listener
	for i := int(sc.releasedPre.Load()); i < len(sc.preHeld); i++ {
		if i < len(sc.releases) {
			continue // a releaser task owns it (it finishes during drain)
		}
		rest = append(rest, sc.preHeld[i])
	}
	if len(rest) == 0 {
		return
	}
	// completed by a task (not by the driving goroutine): a completion must never be abandoned half-way
	sc.s.Go("drain-releaser", func(tk *Task) {
		for _, l := range rest {
			sc.st.Out.Add(-1)
			sc.decPre()
			l.OnIgnore()
		}
	})
}

// conservation checks every layer against the harness ledger (stable points only).
func (sc *scen) conservation(where string) {
	s, st := sc.s, sc.st
	if sc.midOp() {
		return
	}
	out := st.Out.Load()
	if busy, ok := st.Busy(); ok && int64(busy) != out {
		s.Fail("busy-mismatch", sc.cfg.Key()+"/"+sc.cfg.Strategy, "%s: strategy busy count %d != %d outstanding grants [%s]", where, busy, out, sc.cfg)
		return
	}
	if g, ok := st.InFlightGauge(); ok && g != out {
		s.Fail("gauge-mismatch", sc.cfg.Key(), "%s: limiter in-flight gauge %d != %d outstanding grants [%s]", where, g, out, sc.cfg)
		return
	}
	if len(st.Parts) > 0 {
		sum := 0
		for i, name := range st.Parts {
			b, ok := st.BinBusy(i)
			if !ok {
				return
			}
			sum += b
			if want := sc.outPart[name].Load(); int64(b) != want {
				s.Fail("bin-mismatch", sc.cfg.Strategy, "%s: partition %q busy %d != %d outstanding grants of that partition [%s]", where, name, b, want, sc.cfg)
				return
			}
		}
		if st.Pred != nil {
			if busy, ok := st.Busy(); ok && busy != sum {
				s.Fail("bin-sum-mismatch", sc.cfg.Strategy, "%s: bins sum to %d but total busy is %d", where, sum, busy)
			}
		}
	}
	if sc.cfg.IsQueueKind() {
		if q, ok := st.QueueSize(); ok {
			if b := sc.blockedClients(); q != b {
				s.Fail("backlog-mismatch", sc.cfg.Key(), "%s: queue_size gauge reports %d but %d caller(s) are blocked in Acquire [%s]", where, q, b, sc.cfg)
			}
		}
	}
}

// afterDrain: everything completed -> all counts zero, full limit admitted again.
func (sc *scen) afterDrain() {
	s, st := sc.s, sc.st
	if s.Leftover() > 0 {
		return
	}
	for _, cl := range sc.clients {
		if !cl.tk.Done() {
			return
		}
	}
	sc.conservation("after every listener completed")
	if s.Failed() != nil {
		return
	}
	if out := st.Out.Load(); out != 0 {
		s.Fail("harness", "ledger", "ledger not zero after drain: %d", out)
		return
	}
	if sc.cfg.IsQueueKind() {
		if q, ok := st.QueueSize(); ok && q != 0 {
			s.Fail("backlog-mismatch", sc.cfg.Key(), "backlog not empty (%d) after every caller returned [%s]", q, sc.cfg)
			return
		}
	}
	// the limiter admits its full limit again
	var probe core.Limiter = st.Lim
	if st.Default != nil {
		probe = st.Default
	}
	var got []core.Listener
	for i := 0; i < sc.cfg.Limit; i++ {
		var l core.Listener
		var ok bool
		pctx, pcancel := context.WithTimeout(bg, 50*time.Millisecond) // a blocking kind that lost capacity must not hang the driving goroutine
		okCall := RootCall(func() { l, ok = probe.Acquire(st.PartCtx(pctx, partFor(st, i))) })
		pcancel()
		if !okCall {
			return
		}
		if !ok {
			s.Fail("capacity-lost", sc.cfg.Key()+"/"+sc.cfg.Strategy, "after every listener completed only %d of %d tokens can be acquired again [%s]", i, sc.cfg.Limit, sc.cfg)
			break
		}
		got = append(got, l)
	}
	if len(got) == sc.cfg.Limit && st.Default != nil && len(st.Parts) == 0 {
		var ok bool
		RootCall(func() { _, ok = probe.Acquire(bg) })
		if ok {
			s.Fail("over-admission", sc.cfg.Key(), "after drain a %d-th token was granted beyond the limit %d", sc.cfg.Limit+1, sc.cfg.Limit)
		}
	}
	for _, l := range got {
		l := l
		RootCall(func() { l.OnIgnore() })
	}
}

func partFor(st *Stack, i int) string {
	if st.Pred != nil {
		return "a"
	}
	return ""
}

func fmtDur(ns int64) string { return time.Duration(ns).String() }

var _ = fmt.Sprintf
