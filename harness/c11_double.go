package harness

import (
	"time"

	"github.com/platinummonkey/go-concurrency-limits/core"
)

// C11, overlapping releases: two or three holders release in the same instant while a late caller may arrive and take
// a token through the fast path. Each release offers its token to the head of the backlog at that moment, so whatever
// the interleaving the waiters that end up granted are the first ones in the configured order - a later waiter is
// never served while an earlier one keeps waiting.
func runC11DoubleRelease(r *Run) {
	t := r.T
	var c StackCfg
	switch t.Intn(6, "ctor") {
	case 0:
		c.Kind, c.Ordering = "queue", "fifo"
	case 1:
		c.Kind, c.Ordering = "queue", "lifo"
	case 2:
		c.Kind = "lifo-ctor"
	case 3:
		c.Kind = "fifo-ctor"
	case 4:
		c.Kind, c.Ordering = "pool", "fifo"
	default:
		c.Kind, c.Ordering = "pool", "lifo"
	}
	c.Strategy = []string{"simple", "precise"}[t.Intn(2, "strategy")]
	c.Limit = 2 + t.Intn(2, "limit")
	c.Backlog = 10
	c.Timeout = time.Hour
	c.DebugLog = t.Chance(25, "debug-logger")
	st, err := BuildStack(c)
	if err != nil || st.Order == "" {
		r.Fail("harness", "build", "%v (order %q)", err, st.Order)
		return
	}
	var held []core.Listener
	for i := 0; i < c.Limit; i++ {
		l, ok := st.Lim.Acquire(bg)
		if !ok {
			r.Fail("refused-with-room", c.Key(), "initial acquire refused")
			return
		}
		held = append(held, l)
	}
	nW := 2 + t.Intn(3, "waiters")
	nRel := 2 + t.Intn(c.Limit-1, "releases")
	nLate := t.Intn(3, "late-callers")
	outcomes := make([]int, nRel)
	for i := range outcomes {
		outcomes[i] = t.Intn(3, "outcome")
	}
	r.Mixf("C11 overlapping releases %s waiters=%d releases=%d late=%d", c, nW, nRel, nLate)
	s := r.NewSched()
	type dw struct {
		returned, granted bool
	}
	ws := make([]*dw, nW)
	for i := 0; i < nW; i++ {
		i := i
		ws[i] = &dw{}
		s.Go("waiter", func(tk *Task) {
			tk.Sleep(time.Duration(i+1) * ms) // distinct arrival instants: backlog order = index order
			tk.Begin("acquire", i)
			_, ok := st.Lim.Acquire(tk.Ctx)
			ws[i].granted, ws[i].returned = ok, true
			tk.End(ok)
		})
	}
	at := time.Duration(nW+1)*ms + ms/4
	for k := 0; k < nRel; k++ {
		k := k
		s.Go("releaser", func(tk *Task) {
			tk.Sleep(at)
			tk.Begin("complete", outcomeNames[outcomes[k]])
			Complete(held[k], outcomes[k])
			tk.End(nil)
		})
	}
	lateGranted := 0
	for k := 0; k < nLate; k++ {
		lt := s.Go("late-caller", func(tk *Task) {
			tk.Sleep(at)
			tk.Begin("acquire", "late")
			_, ok := st.Lim.Acquire(tk.Ctx)
			if ok {
				lateGranted++
			}
			tk.End(ok)
		})
		lt.daemon = true // may stay queued behind the waiters
	}
	checked := false
	s.Go("observer", func(tk *Task) {
		tk.Sleep(at + ms/2) // everything the releases caused has happened
		var granted []int
		for i, w := range ws {
			if w.returned && w.granted {
				granted = append(granted, i)
			} else if w.returned {
				s.Fail("waiter-refused", c.Key(), "waiter %d returned refused with a one-hour backlog timeout and no cancellation [%s]", i, c)
				return
			}
		}
		// expected: a prefix of the order
		n := len(granted)
		for j, g := range granted {
			want := j
			if st.Order == "lifo" {
				want = nW - n + j // the n newest, ascending index
			}
			if g != want {
				s.Fail("grant-out-of-order", c.Key()+"/overlapping-releases", "%d holders released in the same instant (%d late callers arrived with them, %d got a token): waiters %v were granted, but with %s order the %d served must be the first %d in line [%s]", nRel, nLate, lateGranted, granted, st.Order, n, n, c)
				return
			}
		}
		checked = true
	}).daemon = false
	s.Run()
	r.VirtNs = s.Now()
	if checked {
		r.Nontrivial = true
		r.Probe("overlapping_releases_checked")
		if lateGranted > 0 {
			r.Probe("overlapping_releases_with_barging")
		}
	}
}
