package harness

import (
	"context"
	"fmt"
	"io"
	"net"
	"runtime"
	"sort"
	"sync"
	"time"

	golangGrpc "google.golang.org/grpc"
	"google.golang.org/grpc/codes"
	"google.golang.org/grpc/credentials/insecure"
	"google.golang.org/grpc/metadata"
	"google.golang.org/grpc/status"
	"google.golang.org/grpc/test/bufconn"
	"google.golang.org/protobuf/types/known/wrapperspb"

	"github.com/platinummonkey/go-concurrency-limits/core"
	clgrpc "github.com/platinummonkey/go-concurrency-limits/grpc"
	"github.com/platinummonkey/go-concurrency-limits/limit"
	"github.com/platinummonkey/go-concurrency-limits/limiter"
	"github.com/platinummonkey/go-concurrency-limits/strategy"
)

// C14, end-to-end part: the interceptors run inside a REAL gRPC client and server (HTTP/2 transport,
// real streams, real deadline / cancellation propagation) connected through an in-memory bufconn
// listener, all inside the bubble (virtual clock). The server's handler goroutines enter the
// instrumented limiter code, are adopted by the scheduler at their first scheduling point and are
// scheduled like any other task; the gRPC runtime itself is not instrumented and runs to quiescence
// between two scheduling decisions.

// ledgerLimiter wraps a real limiter and records, per call id, every Acquire attempt, grant and
// completion. The id travels in the context (client side) or in the request metadata (server side).
type ledgerLimiter struct {
	name  string
	inner core.Limiter
	mu    sync.Mutex
	att   map[string]int
	grant map[string]int
	comp  map[string][]string
	order []string
}

func newLedgerLimiter(name string, limitN int) (*ledgerLimiter, *strategy.PreciseStrategy) {
	st := strategy.NewPreciseStrategy(limitN)
	dl, _ := limiter.NewDefaultLimiter(limit.NewFixedLimit(name, limitN, nil), 1e9, 1e9, 0, 10, st, nopLogger{}, core.EmptyMetricRegistryInstance)
	return &ledgerLimiter{name: name, inner: dl, att: map[string]int{}, grant: map[string]int{}, comp: map[string][]string{}}, st
}

func realCallID(ctx context.Context) string {
	if v, ok := ctx.Value(callTagKey{}).(string); ok {
		return v
	}
	if md, ok := metadata.FromIncomingContext(ctx); ok {
		if v := md.Get("vid"); len(v) > 0 {
			return v[0]
		}
	}
	return "?"
}

func (l *ledgerLimiter) Acquire(ctx context.Context) (core.Listener, bool) {
	id := realCallID(ctx)
	l.mu.Lock()
	l.att[id]++
	l.mu.Unlock()
	lis, ok := l.inner.Acquire(ctx)
	if !ok || lis == nil {
		return nil, false
	}
	l.mu.Lock()
	l.grant[id]++
	key := fmt.Sprintf("%s#%d", id, l.grant[id])
	l.order = append(l.order, key)
	l.mu.Unlock()
	return &ledgerToken{l: l, key: key, inner: lis}, true
}

func (l *ledgerLimiter) String() string { return "ledger{" + l.name + "}" }

type ledgerToken struct {
	l     *ledgerLimiter
	key   string
	inner core.Listener
}

func (t *ledgerToken) done(kind string) {
	t.l.mu.Lock()
	t.l.comp[t.key] = append(t.l.comp[t.key], kind)
	t.l.mu.Unlock()
}
func (t *ledgerToken) OnSuccess() { t.done("success"); t.inner.OnSuccess() }
func (t *ledgerToken) OnIgnore()  { t.done("ignore"); t.inner.OnIgnore() }
func (t *ledgerToken) OnDropped() { t.done("dropped"); t.inner.OnDropped() }

type realScript struct {
	id       string
	stream   bool
	msgs     int           // stream: messages the client sends
	dur      time.Duration // handler working time (unary: once; stream: per message)
	code     codes.Code    // status the handler returns
	arrive   time.Duration
	deadline time.Duration // > 0: client context deadline (relative to the call)
	cancelAt time.Duration // > 0: client context cancelled at this absolute instant
}

type realOutcome struct {
	handlerCalls int
	handlerErr   error
	handlerDone  bool
	cliErr       error
	cliReply     string
	echoes       []string
	returned     bool
}

type realSrv struct {
	panicMsg string
	mu       sync.Mutex
	scripts  map[string]*realScript
	out      map[string]*realOutcome
	active   int
}

func (s *realSrv) panicked() bool {
	s.mu.Lock()
	defer s.mu.Unlock()
	return s.panicMsg != ""
}

func (s *realSrv) begin(id string) (*realScript, *realOutcome) {
	s.mu.Lock()
	defer s.mu.Unlock()
	s.active++
	o := s.out[id]
	if o != nil {
		o.handlerCalls++
	}
	return s.scripts[id], o
}

func (s *realSrv) end(o *realOutcome, err error) {
	s.mu.Lock()
	defer s.mu.Unlock()
	s.active--
	if o != nil {
		o.handlerErr = err
		o.handlerDone = true
	}
}

func (s *realSrv) unary(ctx context.Context, req any) (any, error) {
	id := req.(*wrapperspb.StringValue).Value
	sc, o := s.begin(id)
	var err error
	if sc == nil {
		err = status.Error(codes.NotFound, "no script")
		s.end(o, err)
		return nil, err
	}
	if sc.dur > 0 {
		time.Sleep(sc.dur)
	}
	if ctx.Err() != nil {
		err = status.FromContextError(ctx.Err()).Err()
	} else if sc.code != codes.OK {
		err = status.Error(sc.code, "scripted "+id)
	}
	s.end(o, err)
	if err != nil {
		return nil, err
	}
	return wrapperspb.String("echo:" + id), nil
}

func (s *realSrv) chat(stream golangGrpc.ServerStream) error {
	id := realCallID(stream.Context())
	sc, o := s.begin(id)
	var err error
	for {
		in := new(wrapperspb.StringValue)
		if e := stream.RecvMsg(in); e != nil {
			if e != io.EOF {
				err = e
			}
			break
		}
		if sc != nil && sc.dur > 0 {
			time.Sleep(sc.dur)
		}
		if e := stream.SendMsg(wrapperspb.String("echo:" + in.Value)); e != nil {
			err = e
			break
		}
	}
	if err == nil && sc != nil && sc.code != codes.OK {
		err = status.Error(sc.code, "scripted "+id)
	}
	s.end(o, err)
	return err
}

type realEchoServer interface{}

func realServiceDesc(s *realSrv) *golangGrpc.ServiceDesc {
	return &golangGrpc.ServiceDesc{
		ServiceName: "verif.Echo",
		HandlerType: (*realEchoServer)(nil),
		Methods: []golangGrpc.MethodDesc{{MethodName: "Echo", Handler: func(srv any, ctx context.Context, dec func(any) error, ic golangGrpc.UnaryServerInterceptor) (any, error) {
			in := new(wrapperspb.StringValue)
			if err := dec(in); err != nil {
				return nil, err
			}
			if ic == nil {
				return s.unary(ctx, in)
			}
			return ic(ctx, in, &golangGrpc.UnaryServerInfo{Server: srv, FullMethod: "/verif.Echo/Echo"}, s.unary)
		}}},
		Streams: []golangGrpc.StreamDesc{{StreamName: "Chat", ServerStreams: true, ClientStreams: true, Handler: func(srv any, stream golangGrpc.ServerStream) error {
			return s.chat(stream)
		}}},
	}
}

var realChatDesc = &golangGrpc.StreamDesc{StreamName: "Chat", ServerStreams: true, ClientStreams: true}

func runC14Real(r *Run) {
	t := r.T
	srvLimit := 1 + t.Intn(2, "srv-limit")
	cliLimit := 1 + t.Intn(3, "cli-limit")
	recvLimit := 1 + t.Intn(2, "recv-limit")
	sendLimit := 1 + t.Intn(2, "send-limit")
	n := 1 + t.Intn(scale(4, 6), "calls")
	srv := &realSrv{scripts: map[string]*realScript{}, out: map[string]*realOutcome{}}
	var scripts []*realScript
	for i := 0; i < n; i++ {
		sc := &realScript{id: fmt.Sprintf("c%d", i)}
		sc.stream = t.Chance(35, "stream?")
		sc.arrive = []time.Duration{0, 0, ms, 3 * ms}[t.Intn(4, "arrive")]
		sc.dur = []time.Duration{0, ms, 4 * ms}[t.Intn(3, "handler-dur")]
		sc.code = []codes.Code{codes.OK, codes.OK, codes.Internal, codes.Unavailable, codes.NotFound}[t.Intn(5, "handler-code")]
		if sc.stream {
			sc.msgs = t.Intn(4, "msgs")
		}
		switch t.Intn(6, "ctx-fault") {
		case 0:
			// off the 1 ms grid of arrivals and handler durations: no two timers of interest share an instant
			sc.deadline = []time.Duration{ms / 2, 2*ms + ms/2, 50 * ms}[t.Intn(3, "deadline")]
			r.Fault("F-rpc-deadline")
		case 1:
			sc.cancelAt = sc.arrive + []time.Duration{ms / 4, ms + ms/4, 6*ms + ms/4}[t.Intn(3, "cancel-at")]
			r.Fault("F-rpc-cancel")
		}
		scripts = append(scripts, sc)
		srv.scripts[sc.id] = sc
		srv.out[sc.id] = &realOutcome{}
	}
	r.Mixf("C14 real gRPC: srvLimit=%d cliLimit=%d recvLimit=%d sendLimit=%d", srvLimit, cliLimit, recvLimit, sendLimit)
	for _, sc := range scripts {
		r.Mixf("  %s stream=%v msgs=%d arrive=%v dur=%v code=%v deadline=%v cancelAt=%v", sc.id, sc.stream, sc.msgs, sc.arrive, sc.dur, sc.code, sc.deadline, sc.cancelAt)
	}

	srvLim, srvSt := newLedgerLimiter("srv-unary", srvLimit)
	cliLim, cliSt := newLedgerLimiter("cli-unary", cliLimit)
	recvLim, recvSt := newLedgerLimiter("srv-recv", recvLimit)
	sendLim, sendSt := newLedgerLimiter("srv-send", sendLimit)

	lis := bufconn.Listen(1 << 16)
	// outermost: a panic inside the library's interceptor (on a goroutine of the gRPC server) is recorded, not fatal
	recovered := func(where string) {
		if e := recover(); e != nil {
			buf := make([]byte, 2048)
			n := runtime.Stack(buf, false)
			srv.mu.Lock()
			if srv.panicMsg == "" {
				srv.panicMsg = fmt.Sprintf("%s: %v\n%s", where, e, buf[:n])
			}
			srv.mu.Unlock()
		}
	}
	gs := golangGrpc.NewServer(
		golangGrpc.ChainUnaryInterceptor(
			func(ctx context.Context, req any, info *golangGrpc.UnaryServerInfo, h golangGrpc.UnaryHandler) (resp any, err error) {
				defer func() {
					if srv.panicked() {
						resp, err = nil, status.Error(codes.Internal, "panic")
					}
				}()
				defer recovered("unary server interceptor")
				return h(ctx, req)
			},
			clgrpc.UnaryServerInterceptor(clgrpc.WithLimiter(srvLim))),
		golangGrpc.ChainStreamInterceptor(
			func(srvAny any, ss golangGrpc.ServerStream, info *golangGrpc.StreamServerInfo, h golangGrpc.StreamHandler) (err error) {
				defer func() {
					if srv.panicked() {
						err = status.Error(codes.Internal, "panic")
					}
				}()
				defer recovered("stream server interceptor")
				return h(srvAny, ss)
			},
			clgrpc.StreamServerInterceptor(clgrpc.WithStreamRecvLimiter(recvLim), clgrpc.WithStreamSendLimiter(sendLim))),
	)
	gs.RegisterService(realServiceDesc(srv), struct{}{})
	go gs.Serve(lis)
	cc, err := golangGrpc.NewClient("passthrough:///bufnet",
		golangGrpc.WithContextDialer(func(ctx context.Context, _ string) (net.Conn, error) { return lis.DialContext(ctx) }),
		golangGrpc.WithTransportCredentials(insecure.NewCredentials()),
		golangGrpc.WithDisableServiceConfig(),
		golangGrpc.WithUnaryInterceptor(clgrpc.UnaryClientInterceptor(clgrpc.WithLimiter(cliLim))),
	)
	if err != nil {
		r.Fail("harness", "grpc-client", "grpc.NewClient: %v", err)
		return
	}
	defer func() {
		cc.Close()
		gs.Stop()
	}()

	s := r.NewSched()
	srvQuiet := func() bool {
		srv.mu.Lock()
		defer srv.mu.Unlock()
		return srv.active == 0
	}
	for _, sc := range scripts {
		sc := sc
		o := srv.out[sc.id]
		var cancel context.CancelFunc
		tk := s.Go("rpc-client", func(tk *Task) {
			tk.Sleep(sc.arrive)
			ctx := context.WithValue(tk.Ctx, callTagKey{}, sc.id)
			ctx = metadata.AppendToOutgoingContext(ctx, "vid", sc.id)
			if sc.deadline > 0 {
				var c context.CancelFunc
				ctx, c = context.WithTimeout(ctx, sc.deadline)
				defer c()
			}
			if sc.cancelAt > 0 {
				ctx, cancel = context.WithCancel(ctx)
				defer cancel()
			}
			tk.Begin("rpc", sc.id)
			if !sc.stream {
				out := new(wrapperspb.StringValue)
				o.cliErr = cc.Invoke(ctx, "/verif.Echo/Echo", wrapperspb.String(sc.id), out)
				o.cliReply = out.GetValue()
			} else {
				o.cliErr = func() error {
					cs, err := cc.NewStream(ctx, realChatDesc, "/verif.Echo/Chat")
					if err != nil {
						return err
					}
					for k := 0; k < sc.msgs; k++ {
						if err := cs.SendMsg(wrapperspb.String(fmt.Sprintf("%s/m%d", sc.id, k))); err != nil {
							if err == io.EOF {
								break // the status is delivered by RecvMsg
							}
							return err
						}
						in := new(wrapperspb.StringValue)
						if err := cs.RecvMsg(in); err != nil {
							return err
						}
						o.echoes = append(o.echoes, in.Value)
					}
					cs.CloseSend()
					for {
						in := new(wrapperspb.StringValue)
						err := cs.RecvMsg(in)
						if err == io.EOF {
							return nil
						}
						if err != nil {
							return err
						}
						o.echoes = append(o.echoes, in.Value)
					}
				}()
			}
			o.returned = true
			tk.End(status.Code(o.cliErr).String())
			// the server side of this call may still be working (deadline / cancellation): wait for it
			tk.WaitFor("server-quiet", srvQuiet)
		})
		if sc.cancelAt > 0 {
			s.Go("rpc-canceller", func(ck *Task) {
				ck.Sleep(sc.cancelAt)
				if cancel != nil && !tk.Done() {
					cancel()
				}
			}).daemon = true
		}
	}
	s.Run()
	r.VirtNs = s.Now()
	if srv.panicked() {
		r.Fail("panic", "real/server", "real gRPC run: panic on a server goroutine inside the library's interceptor: %s", srv.panicMsg)
		return
	}
	if s.Failed() != nil || s.Truncated {
		return
	}
	// ---- oracle over the ledgers ----
	ctxFault := func(sc *realScript) bool { return sc.deadline > 0 || sc.cancelAt > 0 }
	exactlyOnce := func(l *ledgerLimiter) bool {
		for _, key := range l.order {
			c := l.comp[key]
			if len(c) != 1 {
				r.Fail("token-not-completed", "real/"+l.name, "real gRPC run: token %s of limiter %s was completed %d time(s) %v after every call returned and the server went quiet (expected exactly once)", key, l.name, len(c), c)
				return false
			}
		}
		return true
	}
	for _, l := range []*ledgerLimiter{cliLim, srvLim, recvLim, sendLim} {
		if !exactlyOnce(l) {
			return
		}
	}
	for _, sc := range scripts {
		o := srv.out[sc.id]
		if !o.returned {
			r.Fail("rpc-hung", "real/"+kindName(sc), "real gRPC run: call %s never returned to the client (t=%s)", sc.id, fmtDur(s.Now()))
			return
		}
		cliCode := status.Code(o.cliErr)
		if !sc.stream {
			if cliLim.grant[sc.id] == 0 {
				// refused by the client interceptor: the invoker must not have run
				if cliCode != codes.ResourceExhausted || srvLim.att[sc.id] != 0 || o.handlerCalls != 0 {
					r.Fail("interceptor-protocol", "real/unary-client-refusal", "call %s was refused by the client limiter but the client saw %v, the server limiter was asked %d time(s) and the handler ran %d time(s)", sc.id, o.cliErr, srvLim.att[sc.id], o.handlerCalls)
					return
				}
				r.Probe("real_client_refusal")
				continue
			}
			wantCli := "success"
			if o.cliErr != nil {
				wantCli = "dropped"
			}
			if got := cliLim.comp[sc.id+"#1"]; len(got) != 1 || got[0] != wantCli {
				r.Fail("interceptor-protocol", "real/unary-client-outcome", "call %s returned %v to the client; its client token was completed as %v, expected %s", sc.id, o.cliErr, got, wantCli)
				return
			}
			if srvLim.att[sc.id] > 0 && srvLim.grant[sc.id] == 0 {
				if o.handlerCalls != 0 {
					r.Fail("interceptor-protocol", "real/unary-server-refusal", "call %s was refused by the server limiter but its handler ran", sc.id)
					return
				}
				if !ctxFault(sc) && cliCode != codes.ResourceExhausted {
					r.Fail("interceptor-protocol", "real/unary-server-refusal", "call %s was refused by the server limiter; the client saw %v instead of ResourceExhausted", sc.id, o.cliErr)
					return
				}
				r.Probe("real_server_refusal")
				continue
			}
			if srvLim.grant[sc.id] > 0 {
				if o.handlerCalls != 1 || !o.handlerDone {
					r.Fail("interceptor-protocol", "real/unary-server", "call %s was granted by the server limiter; its handler ran %d time(s) (finished=%v)", sc.id, o.handlerCalls, o.handlerDone)
					return
				}
				wantSrv := "success"
				if o.handlerErr != nil {
					wantSrv = "dropped"
				}
				if got := srvLim.comp[sc.id+"#1"]; len(got) != 1 || got[0] != wantSrv {
					r.Fail("interceptor-protocol", "real/unary-server-outcome", "call %s: handler returned %v; the server token was completed as %v, expected %s", sc.id, o.handlerErr, got, wantSrv)
					return
				}
				if !ctxFault(sc) {
					if cliCode != status.Code(o.handlerErr) || (o.handlerErr == nil && o.cliReply != "echo:"+sc.id) {
						r.Fail("result-altered", "real/unary", "call %s: handler returned (%q, %v) but the client received (%q, %v)", sc.id, "echo:"+sc.id, o.handlerErr, o.cliReply, o.cliErr)
						return
					}
					r.Probe("real_unary_end_to_end")
				} else if o.cliErr != nil {
					r.Probe("real_unary_ctx_fault_hit")
				}
			}
			continue
		}
		// stream: without refusals and context faults every message is echoed in order and the scripted status arrives
		refused := recvLim.att[sc.id] > recvLim.grant[sc.id] || sendLim.att[sc.id] > sendLim.grant[sc.id]
		if refused {
			r.Probe("real_stream_refusal")
			if !ctxFault(sc) && cliCode != codes.ResourceExhausted {
				r.Fail("interceptor-protocol", "real/stream-refusal", "stream %s: a stream operation was refused by its limiter (recv %d/%d, send %d/%d granted) but the client saw %v instead of ResourceExhausted", sc.id, recvLim.grant[sc.id], recvLim.att[sc.id], sendLim.grant[sc.id], sendLim.att[sc.id], o.cliErr)
				return
			}
			continue
		}
		if !ctxFault(sc) {
			if cliCode != sc.code {
				r.Fail("result-altered", "real/stream", "stream %s: handler status %v, client saw %v", sc.id, sc.code, o.cliErr)
				return
			}
			want := []string{}
			for k := 0; k < sc.msgs; k++ {
				want = append(want, fmt.Sprintf("echo:%s/m%d", sc.id, k))
			}
			if !sameStrings(want, o.echoes) {
				r.Fail("result-altered", "real/stream", "stream %s: client received %v, expected %v", sc.id, o.echoes, want)
				return
			}
			if sendLim.grant[sc.id] != sc.msgs || recvLim.grant[sc.id] != sc.msgs+1 {
				r.Fail("interceptor-protocol", "real/stream", "stream %s with %d messages: %d send tokens and %d receive tokens were granted (expected %d and %d: one per SendMsg, one per RecvMsg including the one that sees EOF)", sc.id, sc.msgs, sendLim.grant[sc.id], recvLim.grant[sc.id], sc.msgs, sc.msgs+1)
				return
			}
			r.Probe("real_stream_end_to_end")
		} else if o.cliErr != nil {
			r.Probe("real_stream_ctx_fault_hit")
		}
	}
	for _, p := range []struct {
		name string
		st   *strategy.PreciseStrategy
	}{{"cli-unary", cliSt}, {"srv-unary", srvSt}, {"srv-recv", recvSt}, {"srv-send", sendSt}} {
		if b := p.st.GetBusyCount(); b != 0 {
			r.Fail("token-not-completed", "real/"+p.name, "real gRPC run: limiter %s still counts %d tokens in flight after every call returned and the server went quiet", p.name, b)
			return
		}
	}
	// outcome summary into the event hash (sorted: independent of goroutine ids)
	var sum []string
	for _, sc := range scripts {
		o := srv.out[sc.id]
		sum = append(sum, fmt.Sprintf("%s cli=%v handler=%d/%v echoes=%d", sc.id, status.Code(o.cliErr), o.handlerCalls, status.Code(o.handlerErr), len(o.echoes)))
	}
	sort.Strings(sum)
	for _, l := range sum {
		s.Note("%s", l)
	}
	r.Nontrivial = true
	r.Probe("real_grpc_run")
}

func kindName(sc *realScript) string {
	if sc.stream {
		return "stream"
	}
	return "unary"
}
