//go:debug randseednop=0

package harness

import (
	"encoding/binary"
	"encoding/json"
	"fmt"
	"os"
	"path/filepath"
	"runtime"
	"runtime/pprof"
	"strconv"
	"testing"
	"time"
)

// WorkerOut is what one worker process reports to the driver.
type WorkerOut struct {
	Property   string      `json:"property"`
	Seed       uint64      `json:"seed"`
	Worker     int         `json:"worker"`
	Workers    int         `json:"workers"`
	Stats      Stats       `json:"stats"`
	Violations []FoundViol `json:"violations"`
	Samples    []SampleRun `json:"samples"`
	Hashes     []string    `json:"hashes,omitempty"`
	Distinct   int         `json:"distinct_nontrivial_local"`
	HashFile   string      `json:"hash_file"`
	WallS      float64     `json:"wall_s"`
	Leaked     int         `json:"leaked_bubbles"`
	// StoppedEarly: the worker gave up before its budget (goroutines left behind by failing runs pile up, or the
	// quick tier overran its wall-clock bound); violations found until then stand, a clean result does not
	StoppedEarly string `json:"stopped_early,omitempty"`
	Error        string `json:"error,omitempty"`
	RaceBuild    bool   `json:"race_build"`
	Meta         *Prop  `json:"meta"`
}

type FoundViol struct {
	Class    string `json:"class"`
	Key      string `json:"key"`
	Msg      string `json:"msg"`
	Replay   string `json:"replay"`
	RunSeed  uint64 `json:"run_seed"`
	RunIndex int    `json:"run_index"`
	Count    int    `json:"count"`
	Stable   bool   `json:"replay_stable"`
	TapeLen  int    `json:"tape_len"`
	OrigLen  int    `json:"orig_tape_len"`
	Attempts int    `json:"shrink_attempts"`
}

type SampleRun struct {
	RunSeed uint64   `json:"run_seed"`
	Notes   []string `json:"trace"`
}

// ReplayFile is the on-disk format of a replayable violation.
type ReplayFile struct {
	Property string   `json:"property"`
	Class    string   `json:"violation_class"`
	Key      string   `json:"key"`
	Message  string   `json:"message"`
	Seed     uint64   `json:"seed"`
	Worker   int      `json:"worker"`
	Run      int      `json:"run"`
	RunSeed  uint64   `json:"run_seed"`
	Tape     []uint64 `json:"tape"`
	Hash     string   `json:"event_log_hash"`
	Trace    []string `json:"trace"`
	Tree     string   `json:"tree_fingerprint"`
	Race     bool     `json:"race_build"`
	Tier     string   `json:"tier"` // scenario sizes depend on the tier: a replay must use the same one
}

func envInt(name string, def int) int {
	if v := os.Getenv(name); v != "" {
		if n, err := strconv.Atoi(v); err == nil {
			return n
		}
	}
	return def
}

func envU64(name string, def uint64) uint64 {
	if v := os.Getenv(name); v != "" {
		if n, err := strconv.ParseUint(v, 10, 64); err == nil {
			return n
		}
		if n, err := strconv.ParseInt(v, 10, 64); err == nil {
			return uint64(n)
		}
	}
	return def
}

func startWatchdog() {
	go func() {
		last := heartbeat.Load()
		lastChange := time.Now()
		for {
			time.Sleep(2 * time.Second)
			cur := heartbeat.Load()
			if cur != last {
				last, lastChange = cur, time.Now()
				continue
			}
			if time.Since(lastChange) > time.Duration(envInt("VERIF_WATCHDOG_S", 60))*time.Second {
				fmt.Fprintln(os.Stderr, "WATCHDOG: no scheduler progress; dumping goroutines")
				pprof.Lookup("goroutine").WriteTo(os.Stderr, 2)
				os.Exit(2)
			}
		}
	}()
}

func TestWorker(t *testing.T) {
	propID := os.Getenv("VERIF_PROP")
	if propID == "" {
		t.Skip("VERIF_PROP not set")
	}
	p := Props[propID]
	if p == nil {
		fmt.Fprintf(os.Stderr, "unknown property %q\n", propID)
		os.Exit(2)
	}
	startWatchdog()
	if rp := os.Getenv("VERIF_REPLAY"); rp != "" {
		replayMain(t, p, rp)
		return
	}
	seed := envU64("VERIF_SEED", 1)
	worker := envInt("VERIF_WORKER", 0)
	workers := envInt("VERIF_WORKERS", 1)
	maxMs := envInt("VERIF_MS", 0)
	defRuns := p.QuickRuns
	if defRuns == 0 {
		defRuns = 1000
	}
	if maxMs > 0 {
		defRuns = 1 << 40
	}
	runs := envInt("VERIF_RUNS", defRuns)
	outPath := os.Getenv("VERIF_OUT")
	replDir := os.Getenv("VERIF_REPLAYS_DIR")
	if replDir == "" {
		replDir = "."
	}
	wantHashes := os.Getenv("VERIF_HASHES") == "1"
	maxSigs := envInt("VERIF_MAX_SIGS", 6)
	shrinkBudget := time.Duration(envInt("VERIF_SHRINK_MS", 15000)) * time.Millisecond
	tree := os.Getenv("VERIF_TREE")

	var curFile *os.File
	if outPath != "" {
		curFile, _ = os.Create(outPath + ".cur")
		defer curFile.Close()
	}
	start := time.Now()
	out := &WorkerOut{Property: propID, Seed: seed, Worker: worker, Workers: workers, RaceBuild: RaceBuild, Meta: p}
	distinct := map[uint64]struct{}{}
	const distinctCap = 400000
	sigs := map[string]int{}
	maxWall := time.Duration(envInt("VERIF_MAX_WALL_S", 900)) * time.Second
	for i := 0; i < runs; i++ {
		heartbeat.Add(1)
		if maxMs > 0 && time.Since(start) > time.Duration(maxMs)*time.Millisecond {
			break
		}
		if n := runtime.NumGoroutine(); n > envInt("VERIF_MAX_GOROUTINES", 150000) {
			out.StoppedEarly = fmt.Sprintf("after %d of %d runs: %d goroutines are alive (left blocked by earlier runs, %d bubbles ended with blocked goroutines)", i, runs, n, leakedBubbles)
			if outPath != "" {
				if f, err := os.Create(outPath + ".goroutines"); err == nil {
					pprof.Lookup("goroutine").WriteTo(f, 1) // aggregated by stack: what is piling up
					f.Close()
				}
			}
			break
		}
		if maxMs == 0 && time.Since(start) > maxWall {
			out.StoppedEarly = fmt.Sprintf("after %d of %d runs: wall-clock bound of %s for a run-count tier exceeded", i, runs, maxWall)
			break
		}
		runSeed := Mix(seed, HashString(propID), uint64(worker), uint64(i))
		if curFile != nil {
			// which run is executing: read by the driver if this process dies (a panic on a goroutine of the code under test)
			curFile.WriteAt([]byte(fmt.Sprintf("%020d %09d\n", runSeed, i)), 0)
		}
		if d := envInt("VERIF_DUMP_RUN", -1); d >= 0 {
			// debugging aid: print the full trace of one run index and stop
			if i != d {
				continue
			}
			r := Execute(t, p, NewTape(runSeed), true)
			fmt.Printf("run %d seed %d hash %016x\n", i, runSeed, r.Hash)
			for _, n := range r.Notes {
				fmt.Println(n)
			}
			return
		}
		r := Execute(t, p, NewTape(runSeed), false)
		out.Stats.Add(r)
		if wantHashes {
			out.Hashes = append(out.Hashes, fmt.Sprintf("%016x", r.Hash))
		}
		if r.Nontrivial && len(distinct) < distinctCap {
			distinct[r.Hash] = struct{}{}
		}
		if r.Nontrivial && len(out.Samples) < 3 && r.V == nil {
			rv := Execute(t, p, ReplayTape(r.T.Out), true)
			notes := rv.Notes
			if len(notes) > 60 {
				notes = append(notes[:60:60], fmt.Sprintf("... (%d more lines)", len(rv.Notes)-60))
			}
			out.Samples = append(out.Samples, SampleRun{RunSeed: runSeed, Notes: notes})
		}
		if r.V != nil {
			sig := r.V.Sig()
			if idx, seen := sigs[sig]; seen {
				out.Violations[idx].Count++
				continue
			}
			if len(sigs) >= maxSigs {
				continue
			}
			sigs[sig] = len(out.Violations)
			fv := FoundViol{Class: r.V.Class, Key: r.V.Key, Msg: r.V.Msg, RunSeed: runSeed, RunIndex: i, Count: 1, OrigLen: len(r.T.Out)}
			small, attempts := Shrink(t, p, r.T.Out, sig, shrinkBudget)
			fv.Attempts = attempts
			// confirm: the minimised tape must reproduce the same class and the same event hash twice
			r1 := Execute(t, p, ReplayTape(small), true)
			r2 := Execute(t, p, ReplayTape(small), false)
			final := small
			if r1.V == nil || r2.V == nil || r1.V.Sig() != sig || r2.V.Sig() != sig || r1.Hash != r2.Hash {
				// fall back to the original tape
				final = r.T.Out
				r1 = Execute(t, p, ReplayTape(final), true)
				r2 = Execute(t, p, ReplayTape(final), false)
			}
			fv.Stable = r1.V != nil && r2.V != nil && r1.V.Sig() == sig && r2.V.Sig() == sig && r1.Hash == r2.Hash
			fv.TapeLen = len(final)
			if r1.V != nil {
				fv.Key, fv.Msg = r1.V.Key, r1.V.Msg
			}
			rf := ReplayFile{Property: propID, Class: fv.Class, Key: fv.Key, Message: fv.Msg, Seed: seed, Worker: worker, Run: i,
				RunSeed: runSeed, Tape: final, Hash: fmt.Sprintf("%016x", r1.Hash), Trace: r1.Notes, Tree: tree, Race: RaceBuild, Tier: os.Getenv("VERIF_TIER")}
			name := fmt.Sprintf("%s-%d-w%d-r%d.json", propID, seed, worker, i)
			fv.Replay = filepath.Join(replDir, name)
			b, _ := json.MarshalIndent(rf, "", " ")
			if err := os.WriteFile(fv.Replay, b, 0o644); err != nil {
				out.Error = "cannot write replay: " + err.Error()
			}
			out.Violations = append(out.Violations, fv)
		}
	}
	out.Distinct = len(distinct)
	out.WallS = time.Since(start).Seconds()
	out.Leaked = leakedBubbles
	if outPath != "" {
		hf := outPath + ".hashes"
		buf := make([]byte, 0, 8*len(distinct))
		for h := range distinct {
			buf = binary.LittleEndian.AppendUint64(buf, h)
		}
		os.WriteFile(hf, buf, 0o644)
		out.HashFile = hf
		b, _ := json.Marshal(out)
		if err := os.WriteFile(outPath, b, 0o644); err != nil {
			fmt.Fprintln(os.Stderr, "cannot write worker output:", err)
			os.Exit(2)
		}
	} else {
		b, _ := json.MarshalIndent(out, "", " ")
		fmt.Println(string(b))
	}
	if RaceBuild {
		// the testing package fails the test when the detector reported anything; reports are this check's data
		os.Exit(0)
	}
}

// replayMain re-executes a replay file in this (fresh) process. Exit code 1 +
// VIOLATION line when the violation reproduces with the same class and hash.
func replayMain(t *testing.T, p *Prop, path string) {
	b, err := os.ReadFile(path)
	if err != nil {
		fmt.Fprintln(os.Stderr, "replay:", err)
		os.Exit(2)
	}
	var rf ReplayFile
	if err := json.Unmarshal(b, &rf); err != nil {
		fmt.Fprintln(os.Stderr, "replay:", err)
		os.Exit(2)
	}
	tape := ReplayTape(rf.Tape)
	if len(rf.Tape) == 0 && rf.RunSeed != 0 {
		tape = NewTape(rf.RunSeed) // crash replay: the process died before the tape could be recorded
	}
	r := Execute(t, p, tape, true)
	for _, l := range r.Notes {
		fmt.Println("  " + l)
	}
	res := map[string]any{"property": rf.Property, "expected_class": rf.Class, "expected_hash": rf.Hash, "hash": fmt.Sprintf("%016x", r.Hash)}
	if r.V != nil {
		res["class"], res["key"], res["msg"] = r.V.Class, r.V.Key, r.V.Msg
	}
	if outPath := os.Getenv("VERIF_OUT"); outPath != "" {
		jb, _ := json.Marshal(res)
		os.WriteFile(outPath, jb, 0o644)
	}
	if r.V == nil {
		fmt.Printf("REPLAY: no violation reproduced (expected %s)\n", rf.Class)
		return
	}
	same := r.V.Class == rf.Class && fmt.Sprintf("%016x", r.Hash) == rf.Hash
	fmt.Printf("REPLAY: class=%s key=%s same_as_recorded=%v\n  %s\n", r.V.Class, r.V.Key, same, r.V.Msg)
}
