package harness

import (
	"fmt"
	"github.com/platinummonkey/go-concurrency-limits/verifsim"
	"math/rand"
	"os"
	"runtime"
	"sort"
	"strings"
	"testing"
	"testing/synctest"
	"time"
)

// Prop is one property check: a generator+oracle executed once per run.
type Prop struct {
	ID     string       `json:"id"`
	Bubble bool         `json:"bubble"` // run inside a synctest bubble (virtual clock, scheduler)
	Run    func(r *Run) `json:"-"`
	// evidence texts
	Rule        string   `json:"rule"`
	Real        []string `json:"real_components"`
	Stubs       []string `json:"stub_components"`
	Assumptions []string `json:"assumptions"`
	FaultKinds  []string `json:"fault_kinds"`
	// QuickRuns: default number of runs per worker in the quick tier
	QuickRuns int  `json:"quick_runs_per_worker"`
	Race      bool `json:"race"` // needs the -race build
	// ExpectedProbes: reach probes the workload is meant to hit; reported with a count of 0 when never hit
	ExpectedProbes []string `json:"expected_probes"`
	// ArmLockProbes: the property drives the library from one goroutine (history driver); the lock probes are armed
	// for that goroutine, so a lock it would have to wait for - necessarily one it holds itself, or one leaked by an
	// earlier call - is reported as lock-deadlock instead of hanging the worker
	ArmLockProbes bool `json:"arm_lock_probes"`
}

var Props = map[string]*Prop{}

// Thorough is set from VERIF_TIER=thorough: generators draw larger scenarios
// (more callers, longer histories) and the scheduler allows more steps per run.
var Thorough = os.Getenv("VERIF_TIER") == "thorough"

// scale returns q in the quick tier and th in the thorough tier.
func scale(q, th int) int {
	if Thorough {
		return th
	}
	return q
}

func Register(p *Prop) { Props[p.ID] = p }

// Run is the state of one simulated run.
type Run struct {
	P       *Prop
	T       *Tape
	TT      *testing.T
	S       *Sched
	Verbose bool

	Notes                            []string // scenario description + event notes (verbose only)
	V                                *Violation
	Nontrivial                       bool
	Probes                           map[string]int
	Faults                           map[string]int
	Sig                              uint64 // extra signature material for distinctness
	VirtNs                           int64
	Steps                            int
	Switches                         int
	Truncated                        bool
	Leaked                           int
	Hash                             uint64
	PorcOK, PorcIllegal, PorcUnknown int

	post []func() // executed after the bubble has ended (real clock, e.g. porcupine)
}

func (r *Run) Fail(class, key, format string, a ...any) {
	if r.V == nil {
		r.V = &Violation{Class: class, Key: key, Msg: fmt.Sprintf(format, a...)}
	}
}

func (r *Run) Failed() bool { return r.V != nil }

// Notef records a line describing the scenario or an event. It also feeds the
// run hash, so it must only be given deterministic facts.
func (r *Run) Notef(format string, a ...any) {
	if r.Verbose {
		msg := fmt.Sprintf(format, a...)
		r.Notes = append(r.Notes, msg)
	}
}

// Mixf adds a fact to the run's signature hash (always) and notes (verbose).
func (r *Run) Mixf(format string, a ...any) {
	msg := fmt.Sprintf(format, a...)
	r.Sig ^= HashString(msg)
	r.Sig *= 1099511628211
	if r.Verbose {
		r.Notes = append(r.Notes, msg)
	}
}

func (r *Run) Probe(name string) { r.Probes[name]++ }
func (r *Run) Fault(name string) { r.Faults[name]++ }

// NewSched creates the run's scheduler (bubble props only).
func (r *Run) NewSched() *Sched {
	s := NewSched(r.T)
	s.Trace = r.Verbose
	r.S = s
	return s
}

var leakedBubbles int

// Execute performs one run of prop p driven by tape.
func Execute(tt *testing.T, p *Prop, tape *Tape, verbose bool) *Run {
	r := &Run{P: p, T: tape, TT: tt, Verbose: verbose, Probes: map[string]int{}, Faults: map[string]int{}}
	tape.Verbose = verbose
	// hidden randomness of the code under test (math/rand global): one seed per run
	rand.Seed(int64(tape.Draw(1<<62, "rand.Seed")))
	body := func() {
		defer func() {
			if e := recover(); e != nil {
				if wb, ok := e.(verifsim.WouldBlock); ok {
					if r.V == nil {
						r.Fail("lock-deadlock", wb.Site, "the single goroutine driving the library would block forever on the lock at %s: it holds that lock itself, or an earlier call returned without releasing it", wb.Site)
					}
					return
				}
				buf := make([]byte, 4096)
				n := runtime.Stack(buf, false)
				r.Fail("panic", firstLine(fmt.Sprint(e)), "panic on the driving goroutine: %v\n%s", e, buf[:n])
			}
		}()
		if p.ArmLockProbes {
			arm := NewSched(tape)
			arm.ArmOnly = true
			arm.Activate()
			defer func() {
				if curSched.Load() == arm {
					arm.Deactivate()
				}
				if arm.ArmBlockedAt != "" && r.V == nil {
					r.Fail("lock-deadlock", arm.ArmBlockedAt, "the single goroutine driving the library would block forever on the lock at %s: it holds that lock itself (e.g. a log statement formatting the object under its own lock), or an earlier call returned without releasing it", arm.ArmBlockedAt)
				}
			}()
		}
		p.Run(r)
	}
	if p.Bubble {
		runBubble(tt, body)
	} else {
		body()
	}
	for _, f := range r.post {
		f()
	}
	if r.S != nil {
		s := r.S
		if s.fail != nil && r.V == nil {
			r.V = s.fail
		}
		r.Steps = s.Step
		r.Switches = s.Switches
		if s.SelectReorders > 0 {
			r.Fault("select-case-order")
		}
		for k := range s.SelectHits {
			r.Probe("select_case_ready_on_entry:" + k)
		}
		r.Truncated = r.Truncated || s.Truncated
		r.Leaked = s.Leftover()
		r.Hash = s.Hash() ^ r.Sig
		if verbose {
			r.Notes = append(r.Notes, s.TraceLines()...)
		}
	} else {
		r.Hash = r.Sig
	}
	// the tape itself is part of the signature for history props
	if r.S == nil {
		h := r.Sig
		for _, v := range tape.Out {
			h ^= v
			h *= 1099511628211
		}
		r.Hash = h
	}
	return r
}

func runBubble(tt *testing.T, f func()) {
	// synctest.Test calls t.FailNow (runtime.Goexit) when the bubble's T was
	// marked failed — which the testing package does whenever the race detector
	// reported something during the bubble. Running it on a helper goroutine
	// keeps the worker alive; race reports are this harness' data (C17).
	done := make(chan any, 1)
	go func() {
		var res any
		defer func() {
			if e := recover(); e != nil {
				msg := fmt.Sprint(e)
				if strings.Contains(msg, "deadlock") && strings.Contains(msg, "bubble") {
					leakedBubbles++
					// the bubble's root may be blocked for good inside Sched.Run (its deferred Deactivate never runs)
					curSched.Store(nil)
				} else {
					res = e
				}
			}
			done <- res
		}()
		synctest.Test(tt, func(t *testing.T) {
			f()
		})
	}()
	if e := <-done; e != nil {
		panic(e)
	}
}

// Shrink minimises a failing tape: the same violation signature (class and key) must persist.
func Shrink(tt *testing.T, p *Prop, tape []uint64, sig string, budget time.Duration) ([]uint64, int) {
	deadline := time.Now().Add(budget)
	attempts := 0
	fails := func(c []uint64) bool {
		attempts++
		r := Execute(tt, p, ReplayTape(c), false)
		return r.V != nil && r.V.Sig() == sig
	}
	cur := append([]uint64(nil), tape...)
	trim := func() {
		for len(cur) > 0 && cur[len(cur)-1] == 0 {
			cur = cur[:len(cur)-1]
		}
	}
	trim()
	improved := true
	for improved && time.Now().Before(deadline) {
		improved = false
		// 1. shortest prefix (rest reads as zeros)
		lo, hi := 0, len(cur)
		for lo < hi && time.Now().Before(deadline) {
			mid := (lo + hi) / 2
			if fails(cur[:mid]) {
				hi = mid
			} else {
				lo = mid + 1
			}
		}
		if hi < len(cur) && fails(cur[:hi]) {
			cur = append([]uint64(nil), cur[:hi]...)
			trim()
			improved = true
		}
		// 2. delete blocks
		for _, bs := range []int{32, 16, 8, 4, 2, 1} {
			for i := 0; i+bs <= len(cur) && time.Now().Before(deadline); {
				cand := append(append([]uint64(nil), cur[:i]...), cur[i+bs:]...)
				if fails(cand) {
					cur = cand
					improved = true
				} else {
					i += bs
				}
			}
		}
		// 3. zero blocks
		for _, bs := range []int{8, 2, 1} {
			for i := 0; i+bs <= len(cur) && time.Now().Before(deadline); i += bs {
				allZero := true
				for j := i; j < i+bs; j++ {
					if cur[j] != 0 {
						allZero = false
					}
				}
				if allZero {
					continue
				}
				cand := append([]uint64(nil), cur...)
				for j := i; j < i+bs; j++ {
					cand[j] = 0
				}
				if fails(cand) {
					cur = cand
					improved = true
				}
			}
		}
		// 4. lower single values
		for i := 0; i < len(cur) && time.Now().Before(deadline); i++ {
			for cur[i] > 0 {
				cand := append([]uint64(nil), cur...)
				if cur[i] > 8 {
					cand[i] = cur[i] / 2
				} else {
					cand[i] = cur[i] - 1
				}
				if fails(cand) {
					cur = cand
					improved = true
				} else {
					break
				}
			}
		}
		trim()
	}
	return cur, attempts
}

// ---- aggregate statistics of a worker ----

type Stats struct {
	Evaluations int            `json:"evaluations"`
	Nontrivial  int            `json:"nontrivial"`
	Steps       int64          `json:"steps"`
	Switches    int64          `json:"switches"`
	VirtS       float64        `json:"virtual_s"`
	Truncated   int            `json:"truncated"`
	Leaked      int            `json:"leaked_tasks"`
	Probes      map[string]int `json:"probes"`
	Faults      map[string]int `json:"faults"`
	PorcOK      int            `json:"porcupine_ok"`
	PorcIllegal int            `json:"porcupine_illegal"`
	PorcUnknown int            `json:"porcupine_unknown"`
}

func (st *Stats) Add(r *Run) {
	st.Evaluations++
	if r.Nontrivial {
		st.Nontrivial++
	}
	st.Steps += int64(r.Steps)
	st.Switches += int64(r.Switches)
	st.VirtS += float64(r.VirtNs) / 1e9
	if r.Truncated {
		st.Truncated++
	}
	st.Leaked += r.Leaked
	if st.Probes == nil {
		st.Probes = map[string]int{}
		st.Faults = map[string]int{}
	}
	for k, v := range r.Probes {
		st.Probes[k] += v
	}
	for k, v := range r.Faults {
		st.Faults[k] += v
	}
	st.PorcOK += r.PorcOK
	st.PorcIllegal += r.PorcIllegal
	st.PorcUnknown += r.PorcUnknown
}

func sortedKeys(m map[string]int) []string {
	ks := make([]string, 0, len(m))
	for k := range m {
		ks = append(ks, k)
	}
	sort.Strings(ks)
	return ks
}
