package harness

import (
	"context"
	"encoding/json"
	"fmt"
	"sync/atomic"
	"time"

	"github.com/platinummonkey/go-concurrency-limits/core"
	"github.com/platinummonkey/go-concurrency-limits/limit"
	"github.com/platinummonkey/go-concurrency-limits/limiter"
	"github.com/platinummonkey/go-concurrency-limits/patterns/pool"
	"github.com/platinummonkey/go-concurrency-limits/strategy"
	"github.com/platinummonkey/go-concurrency-limits/strategy/matchers"
)

// StackCfg describes one limiter stack under test.
type StackCfg struct {
	Kind     string // default | blocking | deadline | queue | queue-defaults | lifo-ctor | lifo-ctor-defaults | fifo-ctor | fifo-ctor-defaults | fixedpool | pool
	Ordering string // queue: fifo | lifo | "" (documented default: lifo); pools: random | fifo | lifo
	Strategy string // simple | precise
	Limit    int
	Timeout  time.Duration // blocking: poll timeout; queue/pools: backlog timeout
	Backlog  int
	Evict    bool
	Deadline time.Duration // deadline limiter: deadline = creation + Deadline
	// default limiter window parameters (0 = harness defaults)
	WindowSize   int
	MinWindow    time.Duration
	MaxWindow    time.Duration
	MinRTTThresh time.Duration
	Limit0       core.Limit // optional: limit algorithm (default: FixedLimit(Limit))
	DebugLog     bool       // every layer gets a debug-enabled logger that formats its arguments (String() of limiters, limits, strategies)
}

func (c StackCfg) String() string {
	return fmt.Sprintf("kind=%s ordering=%q strategy=%s limit=%d timeout=%v backlog=%d evict=%v deadline=+%v debuglog=%v",
		c.Kind, c.Ordering, c.Strategy, c.Limit, c.Timeout, c.Backlog, c.Evict, c.Deadline, c.DebugLog)
}

func (c StackCfg) logger() limit.Logger {
	if c.DebugLog {
		return &debugLogger{}
	}
	return nopLogger{}
}

func (c StackCfg) Key() string {
	k := c.Kind
	if c.Ordering != "" {
		k += "-" + c.Ordering
	}
	return k
}

// DeadlineZeroTime as StackCfg.Deadline: the deadline limiter is given the zero time.Time (year 1), a deadline long
// past like any other negative offset.
const DeadlineZeroTime = time.Duration(-1 << 62)

// DeadlineFarFuture as StackCfg.Deadline: the deadline limiter is given 9999-12-31 (a "never" deadline).
const DeadlineFarFuture = time.Duration(1<<62 + 7)

// Stack is a built limiter stack plus the observation points the oracles use.
type Stack struct {
	Cfg        StackCfg
	Lim        core.Limiter
	Default    *limiter.DefaultLimiter // nil for fixedpool (built internally)
	Queue      *limiter.QueueBlockingLimiter
	Reg        *RecRegistry
	Simple     *strategy.SimpleStrategy
	Precise    *strategy.PreciseStrategy
	Lookup     *strategy.LookupPartitionStrategy
	Pred       *strategy.PredicatePartitionStrategy
	Parts      []string // partition names, in registration order (partitioned strategies)
	Created    time.Time
	DeadlineAt time.Time
	// Out counts granted-but-not-completed listeners (harness ledger).
	Out atomic.Int64
	// Expected queue order for the kind (documented): "fifo", "lifo" or "" (unordered)
	Order string
}

// Busy is the strategy's in-flight count; ok=false when not observable
// (pool-internal strategy, or its lock is held by a parked task).
func (st *Stack) Busy() (n int, ok bool) {
	switch {
	case st.Simple != nil:
		ok = RootCall(func() { n = st.Simple.GetBusyCount() })
	case st.Precise != nil:
		ok = RootCall(func() { n = st.Precise.GetBusyCount() })
	case st.Lookup != nil:
		ok = RootCall(func() { n = st.Lookup.BusyCount() })
	case st.Pred != nil:
		ok = RootCall(func() { n = st.Pred.BusyCount() })
	}
	return
}

// BinBusy returns the busy count of partition i (registration order).
func (st *Stack) BinBusy(i int) (n int, ok bool) {
	var err error
	switch {
	case st.Lookup != nil:
		ok = RootCall(func() { n, err = st.Lookup.BinBusyCount(st.Parts[i]) })
	case st.Pred != nil:
		ok = RootCall(func() { n, err = st.Pred.BinBusyCount(i) })
	}
	return n, ok && err == nil
}

// PartCtx returns a context routed to partition name ("" = no key).
func (st *Stack) PartCtx(parent context.Context, name string) context.Context {
	if name == "" {
		return parent
	}
	if st.Lookup != nil {
		return context.WithValue(parent, matchers.LookupPartitionContextKey, name)
	}
	if st.Pred != nil {
		return context.WithValue(parent, matchers.StringPredicateContextKey, name)
	}
	return parent
}

func (st *Stack) StrategyLimit() (n int, ok bool) {
	switch {
	case st.Simple != nil:
		ok = RootCall(func() { n = st.Simple.GetLimit() })
	case st.Precise != nil:
		ok = RootCall(func() { n = st.Precise.GetLimit() })
	case st.Lookup != nil:
		ok = RootCall(func() { n = st.Lookup.Limit() })
	case st.Pred != nil:
		ok = RootCall(func() { n = st.Pred.Limit() })
	}
	return
}

// InFlightGauge is the DefaultLimiter's in-flight gauge (generated accessor).
func (st *Stack) InFlightGauge() (int64, bool) {
	if st.Default == nil {
		return 0, false
	}
	return limiter.VerifInFlight(st.Default), true
}

// QueueSize is the queue_size gauge registered by the queue limiter.
func (st *Stack) QueueSize() (int, bool) {
	g := st.Reg.Gauge(core.MetricQueueSize)
	if g == nil {
		return 0, false
	}
	var v float64
	var ok2 bool
	ok := RootCall(func() { v, ok2 = g.Value() })
	return int(v), ok && ok2
}

func BuildStack(c StackCfg) (*Stack, error) {
	st := &Stack{Cfg: c, Reg: &RecRegistry{}, Created: time.Now()}
	ws := c.WindowSize
	if ws == 0 {
		ws = 10
	}
	minW, maxW := c.MinWindow, c.MaxWindow
	if minW == 0 {
		minW = time.Second
	}
	if maxW == 0 {
		maxW = time.Second
	}
	thr := c.MinRTTThresh
	var strat core.Strategy
	switch c.Strategy {
	case "precise":
		st.Precise = strategy.NewPreciseStrategy(c.Limit)
		strat = st.Precise
	case "lookup":
		st.Parts = []string{"a", "b"}
		parts := map[string]*strategy.LookupPartition{
			"a": strategy.NewLookupPartitionWithMetricRegistry("a", 0.5, 1, core.EmptyMetricRegistryInstance),
			"b": strategy.NewLookupPartitionWithMetricRegistry("b", 0.25, 1, core.EmptyMetricRegistryInstance),
		}
		var e error
		st.Lookup, e = strategy.NewLookupPartitionStrategyWithMetricRegistry(parts, nil, int32(c.Limit), core.EmptyMetricRegistryInstance)
		if e != nil {
			return nil, e
		}
		strat = st.Lookup
	case "predicate":
		st.Parts = []string{"a", "b"}
		parts := []*strategy.PredicatePartition{
			strategy.NewPredicatePartitionWithMetricRegistry("a", 0.5, matchers.StringPredicateMatcher("a", false), core.EmptyMetricRegistryInstance),
			strategy.NewPredicatePartitionWithMetricRegistry("b", 0.25, matchers.StringPredicateMatcher("b", false), core.EmptyMetricRegistryInstance),
		}
		var e error
		st.Pred, e = strategy.NewPredicatePartitionStrategyWithMetricRegistry(parts, int32(c.Limit), core.EmptyMetricRegistryInstance)
		if e != nil {
			return nil, e
		}
		strat = st.Pred
	default:
		st.Simple = strategy.NewSimpleStrategy(c.Limit)
		strat = st.Simple
	}
	mkDefault := func() (*limiter.DefaultLimiter, error) {
		lim := c.Limit0
		if lim == nil {
			lim = limit.NewFixedLimit("fixed", c.Limit, nil)
		}
		return limiter.NewDefaultLimiter(lim, minW.Nanoseconds(), maxW.Nanoseconds(), thr.Nanoseconds(), ws, strat, c.logger(), core.EmptyMetricRegistryInstance)
	}
	var err error
	qord := func(o string) limiter.QueueOrdering {
		switch o {
		case "fifo":
			return limiter.OrderingFIFO
		case "lifo":
			return limiter.OrderingLIFO
		}
		return ""
	}
	pord := func(o string) pool.Ordering {
		switch o {
		case "fifo":
			return pool.OrderingFIFO
		case "lifo":
			return pool.OrderingLIFO
		}
		return pool.OrderingRandom
	}
	switch c.Kind {
	case "default":
		st.Default, err = mkDefault()
		st.Lim = st.Default
	case "blocking":
		st.Default, err = mkDefault()
		if err == nil {
			st.Lim = limiter.NewBlockingLimiter(st.Default, c.Timeout, c.logger())
		}
	case "deadline":
		st.Default, err = mkDefault()
		if err == nil {
			st.DeadlineAt = time.Now().Add(c.Deadline)
			if c.Deadline == DeadlineZeroTime {
				st.DeadlineAt = time.Time{} // the zero time.Time: a deadline long past
			}
			if c.Deadline == DeadlineFarFuture {
				st.DeadlineAt = time.Date(9999, 12, 31, 23, 59, 59, 0, time.UTC) // "never": beyond what fits into int64 nanoseconds since 1970
			}
			st.Lim = limiter.NewDeadlineLimiter(st.Default, st.DeadlineAt, c.logger())
		}
	case "queue":
		st.Default, err = mkDefault()
		if err == nil {
			qc := limiter.QueueLimiterConfig{
				Ordering: qord(c.Ordering), MaxBacklogSize: c.Backlog, MaxBacklogTimeout: c.Timeout,
				BacklogEvictDoneCtx: c.Evict,
			}
			if c.Limit%2 == 0 {
				// half of the configurations take the route of a configuration file: the struct is written to JSON and
				// read back (its fields carry json / yaml tags for that purpose)
				if b, e := json.Marshal(qc); e == nil {
					var back limiter.QueueLimiterConfig
					if e := json.Unmarshal(b, &back); e == nil {
						qc = back
					}
				}
			}
			qc.MetricRegistry = st.Reg
			st.Queue = limiter.NewQueueBlockingLimiterFromConfig(st.Default, qc)
			st.Lim = st.Queue
			st.Order = c.Ordering
			if st.Order == "" {
				st.Order = "lifo"
			}
		}
	case "queue-defaults":
		st.Default, err = mkDefault()
		if err == nil {
			st.Queue = limiter.NewQueueBlockingLimiterWithDefaults(st.Default)
			st.Lim = st.Queue
			st.Order = "lifo"
		}
	case "lifo-ctor":
		st.Default, err = mkDefault()
		if err == nil {
			l := limiter.NewLifoBlockingLimiter(st.Default, c.Backlog, c.Timeout, st.Reg)
			st.Queue, st.Lim, st.Order = l.QueueBlockingLimiter, l, "lifo"
		}
	case "lifo-ctor-defaults":
		st.Default, err = mkDefault()
		if err == nil {
			l := limiter.NewLifoBlockingLimiterWithDefaults(st.Default)
			st.Queue, st.Lim, st.Order = l.QueueBlockingLimiter, l, "lifo"
		}
	case "fifo-ctor":
		st.Default, err = mkDefault()
		if err == nil {
			l := limiter.NewFifoBlockingLimiter(st.Default, c.Backlog, c.Timeout)
			st.Queue, st.Lim, st.Order = l.QueueBlockingLimiter, l, "fifo"
		}
	case "fifo-ctor-defaults":
		st.Default, err = mkDefault()
		if err == nil {
			l := limiter.NewFifoBlockingLimiterWithDefaults(st.Default)
			st.Queue, st.Lim, st.Order = l.QueueBlockingLimiter, l, "fifo"
		}
	case "fixedpool":
		st.Simple, st.Precise, st.Lookup, st.Pred, st.Parts = nil, nil, nil, nil, nil
		var p *pool.FixedPool
		p, err = pool.NewFixedPool("pool", pord(c.Ordering), c.Limit, ws, minW, maxW, thr, c.Backlog, c.Timeout, c.logger(), st.Reg)
		if err == nil {
			st.Lim = p
			if c.Ordering == "fifo" || c.Ordering == "lifo" {
				st.Order = c.Ordering
			}
		}
	case "pool":
		st.Default, err = mkDefault()
		if err == nil {
			var p *pool.Pool
			p, err = pool.NewPool(st.Default, pord(c.Ordering), c.Backlog, c.Timeout, c.logger(), st.Reg)
			if err == nil {
				st.Lim = p
				if c.Ordering == "fifo" || c.Ordering == "lifo" {
					st.Order = c.Ordering
				}
			}
		}
	default:
		return nil, fmt.Errorf("unknown stack kind %q", c.Kind)
	}
	if err != nil {
		return nil, err
	}
	return st, nil
}

// Complete finishes a granted listener with outcome o (0 success, 1 ignore, 2 dropped).
func Complete(l core.Listener, o int) {
	switch o {
	case 0:
		l.OnSuccess()
	case 1:
		l.OnIgnore()
	default:
		l.OnDropped()
	}
}

var outcomeNames = []string{"success", "ignore", "dropped"}

// IsBlockingKind: Acquire may block.
func (c StackCfg) IsBlockingKind() bool { return c.Kind != "default" }

// IsQueueKind: has a backlog.
func (c StackCfg) IsQueueKind() bool {
	switch c.Kind {
	case "queue", "queue-defaults", "lifo-ctor", "lifo-ctor-defaults", "fifo-ctor", "fifo-ctor-defaults":
		return true
	case "fixedpool", "pool":
		return c.Ordering == "fifo" || c.Ordering == "lifo"
	}
	return false
}

var bg = context.Background()
