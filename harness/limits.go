package harness

import (
	"fmt"
	"github.com/platinummonkey/go-concurrency-limits/verifsim"
	"math"

	"github.com/platinummonkey/go-concurrency-limits/core"
	"github.com/platinummonkey/go-concurrency-limits/limit"
	"github.com/platinummonkey/go-concurrency-limits/limit/functions"
	"github.com/platinummonkey/go-concurrency-limits/measurements"
)

// Shared pieces of the history driver for the limit algorithms
// (C04, C06, C07, C08, C15, C16): valid-configuration generator and the
// seeded environment (backend) model with fault segments.

type algoCfg struct {
	Name           string // aimd | vegas | gradient | gradient2 | settable | fixed
	Initial        int
	Min, Max       int
	Smoothing      float64
	Backoff        float64
	VegasSteps     int // 0 = default increase / decrease steps | 1 = caller's increase only | 2 = caller's decrease only | 3 = both
	IncreaseBy     int
	ProbeMult      int
	ProbeInterval  int // gradient: -1 disabled
	QFix           int // 0 = default queue-size function
	Tolerance      float64
	LongWindow     int
	Wrap           string // "" | windowed | traced | traced+windowed | windowed+traced
	WinMin, WinMax int64
	WinSize        int32
	WinThresh      int64
	DebugLog       bool
	Measure        string // vegas: "" (default) | minimum | single: caller-supplied no-load measurement
	Ctor           string // "" = full constructor | "default" = the package's NewDefault… constructor (fields hold its documented parameters) | "default-with-limit" (Vegas)
	WinDefault     bool   // the windowed wrapper is built with NewDefaultWindowedLimit
	EmptyName      bool   // the limit is constructed with name "" (metrics then go under the documented "default." prefix)
}

func (c algoCfg) String() string {
	return fmt.Sprintf("%s{initial=%d min=%d max=%d smoothing=%g backoff=%g inc=%d probeMult=%d probeInterval=%d q=%d tol=%g longWindow=%d wrap=%q win=[%d,%d,%d,%d] debug=%v measure=%q ctor=%q windefault=%v}",
		c.Name, c.Initial, c.Min, c.Max, c.Smoothing, c.Backoff, c.IncreaseBy, c.ProbeMult, c.ProbeInterval, c.QFix, c.Tolerance, c.LongWindow, c.Wrap, c.WinMin, c.WinMax, c.WinSize, c.WinThresh, c.DebugLog, c.Measure, c.Ctor, c.WinDefault) + map[int]string{0: "", 1: " own-increase", 2: " own-decrease", 3: " own-steps"}[c.VegasSteps]
}

type algo struct {
	Cfg    algoCfg
	Lim    core.Limit // outermost
	Inner  core.Limit // the algorithm itself
	Lo, Hi int
	Reg    *RecRegistry
	NoLoad func() int64
	qfunc  func(int) int
}

var smoothings = []float64{1.0, 0.2, 0.5, 0.05, 0.9, 0.01}

func drawAlgoCfg(t *Tape, names []string, wraps []string) algoCfg {
	c := algoCfg{Name: names[t.Intn(len(names), "algo")]}
	c.Initial = 1 + t.Intn(60, "initial")
	if t.Chance(15, "big-initial") {
		c.Initial = 1 + t.Intn(900, "initial-big")
	}
	boundary := t.Chance(8, "table-boundary")
	if boundary {
		// the pre-computed sqrt / log10 tables have 1000 entries: sit right at their edge
		c.Initial = 985 + t.Intn(30, "initial-boundary")
	}
	c.Smoothing = smoothings[t.Intn(len(smoothings), "smoothing")]
	switch c.Name {
	case "aimd":
		if t.Chance(60, "dyadic-backoff") {
			c.Backoff = float64(1+t.Intn(64, "backoff-k")) / 64
		} else {
			c.Backoff = []float64{0.9, 0.95, 0.5, 0.1, 1.0, 0.99}[t.Intn(6, "backoff")]
		}
		c.IncreaseBy = 1 + t.Intn(5, "inc")
	case "vegas":
		c.Max = c.Initial + t.Intn(1200, "max-above")
		if t.Chance(15, "max-below-initial") {
			c.Max = 1 + t.Intn(c.Initial, "max-below")
		}
		c.ProbeMult = []int{30, 4, 10, 60, 5}[t.Intn(5, "probe-mult")]
		if boundary {
			c.Max = []int{1000, 1005, 2000, 999}[t.Intn(4, "max-boundary")]
		}
		c.Measure = []string{"", "", "", "minimum", "single"}[t.Intn(5, "vegas-measure")]
		if !boundary && t.Chance(6, "vegas-initial-left-to-default") {
			// the constructor is given "no initial limit" (0 / -1) together with a small maximum; the estimate may
			// not start above that maximum (Initial only serves as the lenient upper bound of the oracles)
			c.Ctor, c.Initial, c.Max = []string{"initial-0", "initial-neg"}[t.Intn(2, "initial-arg")], 20, 1+t.Intn(30, "small-max")
		}
	case "gradient":
		c.Min = 1 + t.Intn(c.Initial, "min")
		c.Max = c.Initial + t.Intn(1200, "max-above")
		if t.Chance(15, "max-below-initial") {
			c.Max = c.Min + t.Intn(c.Initial-c.Min+1, "max-below")
		}
		c.Tolerance = []float64{2.0, 1.0, 1.5, 5.0}[t.Intn(4, "tol")]
		c.ProbeInterval = []int{1000, -1, 7, 50, 300, 1}[t.Intn(6, "probe-interval")]
		// queue allowance <= max and <= initial
		if t.Chance(50, "fixed-q") || c.Max < 4 || c.Initial < 4 {
			lim := c.Max
			if c.Initial < lim {
				lim = c.Initial
			}
			c.QFix = 1 + t.Intn(minInt(lim, 12), "q")
		} else if sq := int(math.Sqrt(float64(maxInt(c.Max, c.Initial)))) + 1; sq > c.Max || sq > c.Initial {
			c.QFix = 1 + t.Intn(minInt(minInt(c.Max, c.Initial), 12), "q")
		}
	case "gradient2":
		c.Min = 1 + t.Intn(c.Initial, "min")
		c.Max = c.Initial + t.Intn(1200, "max-above")
		if t.Chance(15, "max-below-initial") {
			c.Max = c.Min + t.Intn(c.Initial-c.Min+1, "max-below")
		}
		c.QFix = 1 + t.Intn(minInt(minInt(c.Max, c.Initial), 12), "q")
		c.LongWindow = []int{600, 1, 10, 100, 50}[t.Intn(5, "long-window")]
	case "settable", "fixed":
	}
	if t.Chance(8, "default-ctor") {
		// the NewDefault… constructors are valid configurations too; the fields carry their documented parameters
		switch c.Name {
		case "aimd":
			c.Ctor, c.Initial, c.Backoff, c.IncreaseBy = "default", 10, 0.9, 1
		case "vegas":
			c.Ctor, c.Max, c.Smoothing, c.ProbeMult, c.Measure = "default-with-limit", 1000, 1.0, 30, ""
			if c.Initial > 1000 {
				c.Initial = 1000
			}
			if t.Chance(50, "vegas-full-default") {
				c.Ctor, c.Initial = "default", 20
			}
		case "gradient2":
			c.Ctor, c.Initial, c.Max, c.Min, c.QFix, c.Smoothing, c.LongWindow = "default", 20, 200, 20, 4, 0.2, 600
		}
	}
	if len(wraps) > 0 {
		c.Wrap = wraps[t.Intn(len(wraps), "wrap")]
	}
	if c.Wrap == "" && t.Chance(25, "debug-log-bare") {
		c.DebugLog = true // the algorithms' own debug lines format their arguments under the algorithm's lock
	}
	if c.Wrap != "" {
		c.WinMin = []int64{1e8, 1e9, 5e8}[t.Intn(3, "win-min")]
		c.WinMax = c.WinMin * int64(1+t.Intn(3, "win-max-mult"))
		c.WinSize = int32(10 + t.Intn(5, "win-size"))
		c.WinThresh = []int64{0, 1e5, 1e6, 50}[t.Intn(4, "win-thresh")]
		c.DebugLog = t.Intn(2, "debug-log") == 1
		if t.Chance(8, "default-windowed") {
			c.WinDefault, c.WinMin, c.WinMax, c.WinSize, c.WinThresh = true, 1e9, 1e9, 10, 1e8
		}
	}
	return c
}

func minInt(a, b int) int {
	if a < b {
		return a
	}
	return b
}
func maxInt(a, b int) int {
	if a > b {
		return a
	}
	return b
}

// buildAlgo constructs the algorithm (and wrappers) for a configuration.
func buildAlgo(c algoCfg, withRegistry bool) (*algo, error) {
	a := &algo{Cfg: c}
	nm := func(s string) string {
		if c.EmptyName {
			return ""
		}
		return s
	}
	var reg core.MetricRegistry
	if withRegistry {
		a.Reg = &RecRegistry{}
		reg = a.Reg
	}
	var lg limit.Logger = nopLogger{}
	if c.DebugLog {
		lg = &debugLogger{}
	}
	switch c.Name {
	case "aimd":
		l := limit.NewAIMDLimit(nm("aimd"), c.Initial, c.Backoff, c.IncreaseBy, reg)
		if c.Ctor == "default" {
			l = limit.NewDefaultAIMDLimit(nm("aimd"), reg)
		}
		a.Inner = l
		a.Lo, a.Hi = 1, math.MaxInt32
	case "vegas":
		var meas core.MeasurementInterface
		switch c.Measure {
		case "minimum":
			meas = &measurements.MinimumMeasurement{}
		case "single":
			meas = &measurements.SingleMeasurement{}
		}
		var incF, decF func(float64) float64
		if c.VegasSteps&1 != 0 {
			incF = func(l float64) float64 { return l + 2 }
		}
		if c.VegasSteps&2 != 0 {
			decF = func(l float64) float64 { return l - 2 }
		}
		l := limit.NewVegasLimitWithRegistry(nm("vegas"), c.Initial, meas, c.Max, c.Smoothing, nil, nil, nil, incF, decF, c.ProbeMult, lg, reg)
		switch c.Ctor {
		case "initial-0":
			l = limit.NewVegasLimitWithRegistry(nm("vegas"), 0, meas, c.Max, c.Smoothing, nil, nil, nil, nil, nil, c.ProbeMult, lg, reg)
		case "initial-neg":
			l = limit.NewVegasLimitWithRegistry(nm("vegas"), -1, meas, c.Max, c.Smoothing, nil, nil, nil, nil, nil, c.ProbeMult, lg, reg)
		case "default":
			l = limit.NewDefaultVegasLimit(nm("vegas"), lg, reg)
		case "default-with-limit":
			l = limit.NewDefaultVegasLimitWithLimit(nm("vegas"), c.Initial, lg, reg)
		}
		a.Inner = l
		a.Lo, a.Hi = 1, maxInt(c.Max, c.Initial)
		if c.Ctor == "initial-0" || c.Ctor == "initial-neg" {
			a.Hi = c.Max // no initial value was configured that could be larger than the maximum
		}
		a.NoLoad = l.RTTNoLoad
	case "gradient":
		var qf func(int) int
		if c.QFix > 0 {
			qf = functions.FixedQueueSizeFunc(c.QFix)
		} else {
			qf = functions.SqrtRootFunction(4)
		}
		a.qfunc = qf
		l := limit.NewGradientLimitWithRegistry(nm("gradient"), c.Initial, c.Min, c.Max, c.Smoothing, qf, c.Tolerance, c.ProbeInterval, lg, reg)
		a.Inner = l
		a.Lo, a.Hi = maxInt(1, c.Min), maxInt(c.Max, c.Initial)
		a.NoLoad = l.RTTNoLoad
	case "gradient2":
		qf := functions.FixedQueueSizeFunc(c.QFix)
		a.qfunc = qf
		l, err := limit.NewGradient2Limit(nm("gradient2"), c.Initial, c.Max, c.Min, qf, c.Smoothing, c.LongWindow, lg, reg)
		if err != nil {
			return nil, err
		}
		if c.Ctor == "default" {
			l = limit.NewDefaultGradient2Limit(nm("gradient2"), lg, reg)
		}
		a.Inner = l
		a.Lo, a.Hi = maxInt(1, c.Min), maxInt(c.Max, c.Initial)
	case "settable":
		a.Inner = limit.NewSettableLimit(nm("settable"), c.Initial, reg)
		a.Lo, a.Hi = math.MinInt32, math.MaxInt32
	case "fixed":
		a.Inner = limit.NewFixedLimit(nm("fixed"), c.Initial, reg)
		a.Lo, a.Hi = c.Initial, c.Initial
	default:
		return nil, fmt.Errorf("unknown algorithm %q", c.Name)
	}
	a.Lim = a.Inner
	wrapWindowed := func(d core.Limit) (core.Limit, error) {
		if c.WinDefault {
			return limit.NewDefaultWindowedLimit("windowed", d, reg), nil
		}
		return limit.NewWindowedLimit("windowed", c.WinMin, c.WinMax, c.WinSize, c.WinThresh, d, reg)
	}
	var err error
	switch c.Wrap {
	case "windowed":
		a.Lim, err = wrapWindowed(a.Inner)
	case "traced":
		a.Lim = limit.NewTracedLimit(a.Inner, lg)
	case "traced+windowed": // traced(windowed(inner))
		var w core.Limit
		w, err = wrapWindowed(a.Inner)
		if err == nil {
			a.Lim = limit.NewTracedLimit(w, lg)
		}
	case "windowed+traced": // windowed(traced(inner))
		a.Lim, err = wrapWindowed(limit.NewTracedLimit(a.Inner, lg))
	}
	if err != nil {
		return nil, err
	}
	return a, nil
}

// ---- environment model ----

type Sample struct {
	Start    int64
	RTT      int64
	InFlight int
	Drop     bool
}

func (s Sample) String() string {
	return fmt.Sprintf("(rtt=%d inflight=%d drop=%v start=%d)", s.RTT, s.InFlight, s.Drop, s.Start)
}

// envGen produces samples in segments: a backend model (capacity K, base
// latency, queueing above K, overload drops) perturbed by fault segments.
type envGen struct {
	r       *Run
	base    int64
	cap     int
	clock   int64
	segLeft int
	seg     int
	loadF   float64
	constR  int64
	constF  int
	decR    int64
	maxRTT  int64 // cap on generated rtts
	noZero  bool  // rtt >= 1
	noDrop  bool
}

const (
	segBackend = iota
	segConst
	segDecreasing
	segStall
	segHuge
	segDropBurst
	segIdle
	segEdgeInflight
	segSpike
	nSegKinds
)

var segNames = []string{"backend", "const", "decreasing-rtt", "stall-rtt0", "huge-rtt", "drop-burst", "idle", "edge-inflight", "spike"}

func newEnvGen(r *Run) *envGen {
	t := r.T
	g := &envGen{r: r, maxRTT: 1 << 62}
	g.base = []int64{1e6, 1e3, 5e7, 100, 1e9, 1}[t.Intn(6, "base-rtt")]
	g.cap = 1 + t.Intn(100, "capacity")
	g.clock = 1e15
	return g
}

func (g *envGen) next(est int) Sample {
	t := g.r.T
	if est < 1 {
		est = 1
	}
	if est > 1<<20 {
		est = 1 << 20
	}
	if g.segLeft <= 0 {
		w := []int{10, 3, 2, 2, 1, 3, 2, 2, 2}
		if g.noZero {
			w[segStall] = 0
		}
		if g.noDrop {
			w[segDropBurst] = 0
		}
		g.seg = t.Pick(w, "segment")
		g.segLeft = 1 + t.Intn(25, "seg-len")
		g.loadF = []float64{1.0, 0.1, 0.4, 0.6, 1.5, 3}[t.Intn(6, "load")]
		g.constR = g.pickRTT()
		g.constF = g.pickInflight(est)
		g.decR = g.constR + int64(g.segLeft)*1000
		if g.seg != segBackend {
			g.r.Fault("seg:" + segNames[g.seg])
		}
	}
	g.segLeft--
	var s Sample
	switch g.seg {
	case segBackend:
		inflight := int(g.loadF * float64(est))
		if inflight < 0 {
			inflight = 0
		}
		rtt := g.base
		if inflight > g.cap {
			rtt = g.base + g.base*int64(inflight-g.cap)/int64(g.cap)
		}
		rtt += int64(t.Intn(int(g.base/8)+1, "jitter"))
		s = Sample{RTT: rtt, InFlight: inflight}
		if !g.noDrop && inflight > 2*g.cap && t.Chance(40, "overload-drop") {
			s.Drop = true
			g.r.Fault("F-drop:overload")
		}
	case segConst:
		s = Sample{RTT: g.constR, InFlight: g.constF}
	case segDecreasing:
		g.decR -= 1000
		if g.decR < 1 {
			g.decR = 1
		}
		s = Sample{RTT: g.decR, InFlight: g.constF}
	case segStall:
		s = Sample{RTT: 0, InFlight: g.constF}
		g.r.Fault("F-latency:rtt0")
	case segHuge:
		s = Sample{RTT: []int64{1<<53 - 1, 1 << 62, 1 << 40}[t.Intn(3, "huge")], InFlight: g.constF}
	case segDropBurst:
		s = Sample{RTT: g.constR, InFlight: g.constF, Drop: true}
		g.r.Fault("F-drop:burst")
	case segIdle:
		s = Sample{RTT: g.constR, InFlight: t.Intn(2, "idle-inflight")}
		g.r.Fault("F-idle")
	case segEdgeInflight:
		s = Sample{RTT: g.constR, InFlight: g.pickInflight(est)}
	case segSpike:
		s = Sample{RTT: g.base * int64(2+t.Intn(50, "spike-x")), InFlight: g.constF}
	}
	if s.RTT > g.maxRTT {
		s.RTT = g.maxRTT
	}
	if g.noZero && s.RTT < 1 {
		s.RTT = 1
	}
	if g.noDrop {
		s.Drop = false
	}
	// caller-supplied clock (windowed limit): mostly monotone, sometimes jumps (F-clock)
	g.clock += s.RTT%1e9 + int64(t.Intn(1000, "clock-step"))*1e6
	if t.Chance(3, "clock-jump") {
		g.clock += int64(t.Intn(10, "jump-s")) * 1e9
		g.r.Fault("F-clock:jump")
	} else if t.Chance(2, "clock-back") {
		g.clock -= int64(t.Intn(3, "back-s")) * 1e9
		g.r.Fault("F-clock:back")
	}
	s.Start = g.clock
	if s.Start > 1<<61 {
		s.Start = 1 << 61
	}
	if s.Start+s.RTT < 0 || s.RTT > 1<<61 {
		s.Start = 0
	}
	return s
}

func (g *envGen) pickRTT() int64 {
	t := g.r.T
	switch t.Intn(6, "rtt-kind") {
	case 0:
		return g.base
	case 1:
		return g.base * int64(1+t.Intn(10, "rtt-mult"))
	case 2:
		return 1
	case 3:
		return 1 + int64(t.Intn(1000000, "rtt-small"))
	case 4:
		return g.base/2 + 1
	default:
		return g.base + int64(t.Intn(int(g.base)+1, "rtt-jit"))
	}
}

func (g *envGen) pickInflight(est int) int {
	t := g.r.T
	switch t.Intn(9, "inflight-kind") {
	case 0:
		return est
	case 1:
		return 0
	case 2:
		return 1
	case 3:
		return est/2 - 1 + boolInt(est/2-1 < 0)
	case 4:
		return est / 2
	case 5:
		return maxInt(est-1, 0)
	case 6:
		return est * 2
	case 7:
		return 1<<31 - 1
	default:
		return (est + 1) / 2
	}
}

func boolInt(b bool) int {
	if b {
		return 1
	}
	return 0
}

// safeSample feeds one sample, converting a panic into an error value.
func safeSample(l core.Limit, s Sample) (panicked any) {
	defer func() {
		if e := recover(); e != nil {
			if wb, ok := e.(verifsim.WouldBlock); ok {
				panic(wb) // not a panic of the library: the armed lock probe (see Prop.ArmLockProbes)
			}
			panicked = e
		}
	}()
	l.OnSample(s.Start, s.RTT, s.InFlight, s.Drop)
	return nil
}

func safeEstimate(l core.Limit) (v int, panicked any) {
	defer func() {
		if e := recover(); e != nil {
			if wb, ok := e.(verifsim.WouldBlock); ok {
				panic(wb)
			}
			panicked = e
		}
	}()
	return l.EstimatedLimit(), nil
}
