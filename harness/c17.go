package harness

import (
	"context"
	"fmt"
	"io"
	"time"

	golangGrpc "google.golang.org/grpc"
	"google.golang.org/grpc/metadata"

	"github.com/DataDog/datadog-go/v5/statsd"
	gometrics "github.com/rcrowley/go-metrics"

	"github.com/platinummonkey/go-concurrency-limits/core"
	clgrpc "github.com/platinummonkey/go-concurrency-limits/grpc"
	"github.com/platinummonkey/go-concurrency-limits/limit"
	"github.com/platinummonkey/go-concurrency-limits/limit/functions"
	"github.com/platinummonkey/go-concurrency-limits/limiter"
	"github.com/platinummonkey/go-concurrency-limits/measurements"
	ddreg "github.com/platinummonkey/go-concurrency-limits/metric_registry/datadog"
	gmreg "github.com/platinummonkey/go-concurrency-limits/metric_registry/gometrics"
	"github.com/platinummonkey/go-concurrency-limits/patterns/pool"
	"github.com/platinummonkey/go-concurrency-limits/strategy"
	"github.com/platinummonkey/go-concurrency-limits/strategy/matchers"
)

// C17 — data-race freedom of the public API: Go race detector under the
// deterministic schedule. The harness' own synchronisation is hidden from the
// detector (RaceDisable around hooks), so only the code under test's
// happens-before edges count.
func init() {
	Register(&Prop{
		ID: "C17", Bubble: true, Run: runC17, QuickRuns: 450, Race: true,
		Rule: "one run = one shared instance group (limit algorithms incl. wrappers; strategies and partitions; limiters and listeners; measurements; pools; gRPC interceptors and the stream wrapper over real limiters; go-metrics / datadog registries; gauge suppliers polled like a registry would) and 2..4 tasks each calling 3..12 seeded exported methods (samples, accessors, String, listener / partition / metric registration, Start / Stop) under one seeded schedule in a -race build; the scheduler's and hooks' own synchronisation is excluded from the detector (runtime.RaceDisable, go:norace); " +
			"oracle: runtime.RaceErrors() must not increase during the run and the runtime must not crash; non-trivial = at least two tasks executed a mutating method on the shared instance; distinct = distinct (group, method multiset, schedule) hashes",
		Real:       []string{"limit.*", "strategy.*", "limiter.*", "measurements.*", "metric_registry/gometrics", "metric_registry/datadog", "Go race detector (ThreadSanitizer runtime of go1.26.8)"},
		Stubs:      []string{"lock-free no-op metric registry (so that the stub adds no happens-before edges)", "in-memory statsd writer"},
		FaultKinds: []string{"F-preempt"},
		Assumptions: []string{"the race detector only sees accesses that occur in an explored run; its bounded shadow history can miss, never invent",
			"GORACE halt_on_error=0 suppress_equal_stacks=0 suppress_equal_addresses=0 so that shrinking and replay in one process see repeated reports"},
	})
}

// quietRegistry: metric registry stub without any synchronisation.
// It keeps the gauge suppliers (registered while the instance is constructed, before any task
// runs) so that a task can poll them like a started registry's poller would.
type quietRegistry struct{ keep *[]core.MetricSupplier }
type quietListener struct{}

func (quietListener) AddSample(value float64, tags ...string) {}
func (quietRegistry) RegisterDistribution(ID string, tags ...string) core.MetricSampleListener {
	return quietListener{}
}
func (quietRegistry) RegisterTiming(ID string, tags ...string) core.MetricSampleListener {
	return quietListener{}
}
func (quietRegistry) RegisterCount(ID string, tags ...string) core.MetricSampleListener {
	return quietListener{}
}
func (q quietRegistry) RegisterGauge(ID string, supplier core.MetricSupplier, tags ...string) {
	if q.keep != nil {
		*q.keep = append(*q.keep, supplier)
	}
}
func (quietRegistry) Start() {}
func (quietRegistry) Stop()  {}

// statelessStream: a grpc.ServerStream double without any mutable state (so it cannot race itself).
type statelessStream struct{}

func (statelessStream) SetHeader(metadata.MD) error  { return nil }
func (statelessStream) SendHeader(metadata.MD) error { return nil }
func (statelessStream) SetTrailer(metadata.MD)       {}
func (statelessStream) Context() context.Context     { return bg }
func (statelessStream) SendMsg(m interface{}) error {
	globalHook(kYield, "stream.SendMsg")
	return nil
}
func (statelessStream) RecvMsg(m interface{}) error {
	globalHook(kYield, "stream.RecvMsg")
	if x, ok := m.(int); ok && x%5 == 0 {
		return io.EOF
	}
	return nil
}

type c17op struct {
	name     string
	mutating bool
	f        func(tk *Task, x int)
}

func runC17(r *Run) {
	t := r.T
	group := t.Intn(7, "group")
	var ops []c17op
	var desc string
	var suppliers []core.MetricSupplier
	qr := quietRegistry{keep: &suppliers}
	var cleanup func()
	switch group {
	case 0: // limits
		which := t.Intn(10, "limit")
		var l, l2 core.Limit
		switch which {
		case 9:
			// two limits configured with the same queue-size function value (a package-level default in an
			// application), at estimates beyond the functions' pre-computed table
			qf := functions.SqrtRootFunction(4)
			l = limit.NewGradientLimitWithRegistry("gradient-a", 1000, 1, 8000, 0.5, qf, 2.0, 0, nopLogger{}, qr)
			l2 = limit.NewGradientLimitWithRegistry("gradient-b", 1200, 1, 8000, 0.5, qf, 2.0, 0, nopLogger{}, qr)
		case 0:
			l = limit.NewAIMDLimit("aimd", 10, 0.9, 1, qr)
		case 1:
			l = limit.NewDefaultVegasLimitWithLimit("vegas", 10, nopLogger{}, qr)
		case 2:
			l = limit.NewGradientLimitWithRegistry("gradient", 10, 1, 100, 0.5, nil, 2.0, 5, nopLogger{}, qr)
		case 3:
			l, _ = limit.NewGradient2Limit("g2", 10, 100, 1, nil, 0.5, 10, nopLogger{}, qr)
		case 4:
			l = limit.NewSettableLimit("settable", 10, qr)
		case 5:
			l = limit.NewFixedLimit("fixed", 10, qr)
		case 6:
			l, _ = limit.NewWindowedLimit("windowed", 1e8, 1e8, 10, 0, limit.NewAIMDLimit("aimd", 10, 0.9, 1, qr), qr)
		case 7:
			l = limit.NewTracedLimit(limit.NewDefaultVegasLimitWithLimit("vegas", 10, nopLogger{}, qr), nopLogger{})
		case 8:
			// probes on (almost) every sample: the baseline measurement object is replaced while others read it
			l = limit.NewVegasLimitWithRegistry("vegas-probing", 2, nil, 4, 1.0, nil, nil, nil, nil, nil, 1, nopLogger{}, qr)
		}
		desc = fmt.Sprintf("limit %T", l)
		ops = []c17op{
			{"OnSample", true, func(tk *Task, x int) {
				l.OnSample(int64(x)*1e9, int64(1+x%7)*1e6, 5+x%20, x%5 == 0)
			}},
			{"OnSample-second-limit", true, func(tk *Task, x int) {
				if l2 != nil {
					l2.OnSample(int64(x)*1e9, int64(1+x%7)*1e6, 700+x%900, false)
				} else {
					l.OnSample(int64(x)*1e9, int64(1+x%7)*1e6, 700+x%900, false)
				}
			}},
			{"EstimatedLimit", false, func(tk *Task, x int) { _ = l.EstimatedLimit() }},
			{"String", false, func(tk *Task, x int) {
				if st, ok := l.(fmt.Stringer); ok {
					_ = st.String()
				}
			}},
			{"NotifyOnChange", true, func(tk *Task, x int) { l.NotifyOnChange(func(int) {}) }},
			{"NotifyOnChange-several", true, func(tk *Task, x int) { // a component wiring up its observers
				for i := 0; i < 2+x%3; i++ {
					l.NotifyOnChange(func(int) {})
				}
			}},
		}
		switch v := l.(type) {
		case *limit.VegasLimit:
			ops = append(ops, c17op{"RTTNoLoad", false, func(tk *Task, x int) { _ = v.RTTNoLoad() }})
		case *limit.GradientLimit:
			ops = append(ops, c17op{"RTTNoLoad", false, func(tk *Task, x int) { _ = v.RTTNoLoad() }})
		case *limit.AIMDLimit:
			ops = append(ops, c17op{"BackOffRatio", false, func(tk *Task, x int) { _ = v.BackOffRatio() }})
		case *limit.SettableLimit:
			ops = append(ops, c17op{"SetLimit", true, func(tk *Task, x int) { v.SetLimit(1 + x%9) }})
		}
	case 1: // strategies
		which := t.Intn(4, "strategy")
		switch which {
		case 0, 1:
			var s core.Strategy
			var busy, lim func() int
			if which == 0 {
				ss := strategy.NewSimpleStrategyWithMetricRegistry(2, qr)
				s, busy, lim = ss, ss.GetBusyCount, ss.GetLimit
			} else {
				ps := strategy.NewPreciseStrategyWithMetricRegistry(2, qr)
				s, busy, lim = ps, ps.GetBusyCount, ps.GetLimit
			}
			desc = fmt.Sprintf("strategy %T", s)
			ops = []c17op{
				{"TryAcquire+Release", true, func(tk *Task, x int) {
					if tok, ok := s.TryAcquire(bg); ok {
						_ = tok.InFlightCount()
						tok.Release()
					}
				}},
				{"TryAcquire(cancelled ctx)", true, func(tk *Task, x int) {
					// an abandoned request: a context that is already done is a legal argument
					if tok, ok := s.TryAcquire(cancelledCtx); ok {
						_ = tok.InFlightCount()
						tok.Release()
					} else if tok != nil {
						_ = tok.InFlightCount()
					}
				}},
				{"SetLimit", true, func(tk *Task, x int) { s.SetLimit(1 + x%4) }},
				{"String", false, func(tk *Task, x int) {
					if st, ok := s.(fmt.Stringer); ok {
						_ = st.String()
					}
				}},
				{"GetBusyCount", false, func(tk *Task, x int) { _ = busy() }},
				{"GetLimit", false, func(tk *Task, x int) { _ = lim() }},
			}
		case 2:
			pa := strategy.NewLookupPartitionWithMetricRegistry("a", 0.5, 1, qr)
			pb := strategy.NewLookupPartitionWithMetricRegistry("b", 0.25, 1, qr)
			s, _ := strategy.NewLookupPartitionStrategyWithMetricRegistry(map[string]*strategy.LookupPartition{"a": pa, "b": pb}, nil, 3, qr)
			// a second strategy (another listener port of the same service) that shares the tier object pa
			s2, _ := strategy.NewLookupPartitionStrategyWithMetricRegistry(map[string]*strategy.LookupPartition{"a": pa}, nil, 2, qr)
			desc = "strategy lookup-partition"
			ctxs := []context.Context{
				context.WithValue(bg, matchers.LookupPartitionContextKey, "a"),
				context.WithValue(bg, matchers.LookupPartitionContextKey, "b"),
				context.WithValue(bg, matchers.LookupPartitionContextKey, "zz"),
			}
			ops = []c17op{
				{"TryAcquire+Release", true, func(tk *Task, x int) {
					if tok, ok := s.TryAcquire(ctxs[x%3]); ok {
						tok.Release()
					}
				}},
				{"TryAcquire+Release-second-strategy", true, func(tk *Task, x int) {
					if tok, ok := s2.TryAcquire(ctxs[0]); ok {
						tok.Release()
					}
				}},
				{"SetLimit", true, func(tk *Task, x int) { s.SetLimit(1 + x%5) }},
				{"String", false, func(tk *Task, x int) { _ = s.String() }},
				{"BusyCount", false, func(tk *Task, x int) { _ = s.BusyCount() }},
				{"Limit", false, func(tk *Task, x int) { _ = s.Limit() }},
				{"BinBusyCount", false, func(tk *Task, x int) { _, _ = s.BinBusyCount("a") }},
				{"BinLimit", false, func(tk *Task, x int) { _, _ = s.BinLimit("b") }},
				{"AddPartition", true, func(tk *Task, x int) {
					n := fmt.Sprintf("p%d", x%3)
					s.AddPartition(n, strategy.NewLookupPartitionWithMetricRegistry(n, 0.05, 1, quietRegistry{}))
				}},
				{"RemovePartition", true, func(tk *Task, x int) { s.RemovePartition(fmt.Sprintf("p%d", x%3)) }},
				{"partition.String", false, func(tk *Task, x int) { _ = pa.String() }},
				{"partition.Limit", false, func(tk *Task, x int) { _ = pa.Limit() }},
				{"partition.BusyCount", false, func(tk *Task, x int) { _ = pb.BusyCount() }},
			}
		default:
			pa := strategy.NewPredicatePartitionWithMetricRegistry("a", 0.5, matchers.StringPredicateMatcher("a", false), qr)
			pb := strategy.NewPredicatePartitionWithMetricRegistry("b", 0.25, matchers.StringPredicateMatcher("b", false), qr)
			s, _ := strategy.NewPredicatePartitionStrategyWithMetricRegistry([]*strategy.PredicatePartition{pa, pb}, 3, qr)
			desc = "strategy predicate-partition"
			ctxs := []context.Context{
				context.WithValue(bg, matchers.StringPredicateContextKey, "a"),
				context.WithValue(bg, matchers.StringPredicateContextKey, "b"),
				context.WithValue(bg, matchers.StringPredicateContextKey, "c"),
			}
			ops = []c17op{
				{"TryAcquire+Release", true, func(tk *Task, x int) {
					if tok, ok := s.TryAcquire(ctxs[x%3]); ok {
						tok.Release()
					}
				}},
				{"SetLimit", true, func(tk *Task, x int) { s.SetLimit(1 + x%5) }},
				{"String", false, func(tk *Task, x int) { _ = s.String() }},
				{"BusyCount", false, func(tk *Task, x int) { _ = s.BusyCount() }},
				{"Limit", false, func(tk *Task, x int) { _ = s.Limit() }},
				{"BinBusyCount", false, func(tk *Task, x int) { _, _ = s.BinBusyCount(0) }},
				{"BinLimit", false, func(tk *Task, x int) { _, _ = s.BinLimit(0) }},
				{"AddPartition", true, func(tk *Task, x int) {
					s.AddPartition(strategy.NewPredicatePartitionWithMetricRegistry("c", 0.05, matchers.StringPredicateMatcher("c", false), quietRegistry{}))
				}},
				{"RemovePartitionsMatching", true, func(tk *Task, x int) { s.RemovePartitionsMatching(ctxs[2]) }},
				{"partition.String", false, func(tk *Task, x int) { _ = pa.String() }},
				{"partition.Limit", false, func(tk *Task, x int) { _ = pa.Limit() }},
				{"partition.BusyCount", false, func(tk *Task, x int) { _ = pb.BusyCount() }},
			}
		}
	case 2: // limiters
		which := t.Intn(4, "limiter")
		lim0 := 1 + t.Intn(2, "limiter-limit")
		st := strategy.NewSimpleStrategyWithMetricRegistry(lim0, qr)
		var algo core.Limit = limit.NewAIMDLimit("aimd", lim0, 0.9, 1, qr)
		var settable *limit.SettableLimit
		if t.Chance(30, "limiter-over-settable-limit") {
			// the limit is also driven from outside the limiter (an operator's SetLimit)
			settable = limit.NewSettableLimit("settable", lim0, qr)
			algo = settable
		}
		dl, _ := limiter.NewDefaultLimiter(algo, 1, 1, 0, 10, st, nopLogger{}, qr)
		// the sample window is one completion from closing: the next success updates nextUpdateTime and the limit
		for i := 0; i < 10; i++ {
			if ls, ok := dl.Acquire(bg); ok {
				time.Sleep(time.Nanosecond)
				ls.OnSuccess()
			}
		}
		var l core.Limiter = dl
		switch which {
		case 1:
			l = limiter.NewBlockingLimiter(dl, 5*ms, nopLogger{})
		case 2:
			// deadline ahead, already reached, or the zero time: the refusal path after the deadline is shared state too
			dlAt := []time.Time{time.Now().Add(20 * ms), time.Now().Add(20 * ms), time.Now(), {}}[t.Intn(4, "deadline-at")]
			l = limiter.NewDeadlineLimiter(dl, dlAt, nopLogger{})
		case 3:
			l = limiter.NewQueueBlockingLimiterFromConfig(dl, limiter.QueueLimiterConfig{MaxBacklogSize: 3, MaxBacklogTimeout: 5 * ms, MetricRegistry: qr})
		}
		desc = fmt.Sprintf("limiter %T", l)
		ops = []c17op{
			{"Acquire+complete", true, func(tk *Task, x int) {
				ctx, cancel := context.WithTimeout(bg, 15*ms)
				defer cancel()
				if ls, ok := l.Acquire(ctx); ok {
					tk.Sleep(time.Duration(x%3) * ms)
					Complete(ls, x%3)
				}
			}},
			{"String", false, func(tk *Task, x int) {
				if st, ok := l.(fmt.Stringer); ok {
					_ = st.String()
				}
			}},
			{"EstimatedLimit", false, func(tk *Task, x int) { _ = dl.EstimatedLimit() }},
			{"delegate.String", false, func(tk *Task, x int) { _ = dl.String() }},
			{"Limit.SetLimit", true, func(tk *Task, x int) {
				if settable != nil {
					settable.SetLimit(1 + x%4)
				} else {
					_ = dl.EstimatedLimit()
				}
			}},
		}
	case 3: // measurements
		var m core.MeasurementInterface
		switch t.Intn(6, "measurement") {
		case 0:
			m = &measurements.MinimumMeasurement{}
		case 1:
			m = &measurements.SingleMeasurement{}
		case 2:
			m = measurements.NewExponentialAverageMeasurement(10, 3)
		case 3:
			m, _ = measurements.NewSimpleExponentialMovingAverage(0.2)
		case 4:
			m, _ = measurements.NewSimpleMovingVariance(0.2, 0.2)
		case 5:
			m, _ = measurements.NewWindowlessMovingPercentile(0.9, 0.01, 0.2, 0.2)
		}
		desc = fmt.Sprintf("measurement %T", m)
		ops = []c17op{
			{"Add", true, func(tk *Task, x int) { m.Add(float64(1 + x)) }},
			{"Get", false, func(tk *Task, x int) { _ = m.Get() }},
			{"Reset", true, func(tk *Task, x int) { m.Reset() }},
			{"Update", true, func(tk *Task, x int) { m.Update(func(v float64) float64 { return v + 1 }) }},
			{"String", false, func(tk *Task, x int) {
				if st, ok := m.(fmt.Stringer); ok {
					_ = st.String()
				}
			}},
		}
	case 5: // pools
		var acquire func(ctx context.Context) (core.Listener, bool)
		ord := []pool.Ordering{pool.OrderingRandom, pool.OrderingFIFO, pool.OrderingLIFO}[t.Intn(3, "pool-ordering")]
		if t.Intn(2, "pool-kind") == 0 {
			fp, err := pool.NewFixedPool("p", ord, 1+t.Intn(2, "pool-limit"), 10, time.Second, time.Second, 0, 3, 5*ms, nopLogger{}, qr)
			if err != nil {
				r.Fail("harness", "pool", "%v", err)
				return
			}
			acquire = fp.Acquire
			desc = fmt.Sprintf("pool FixedPool ordering=%d", ord)
			ops = append(ops, c17op{"Limit", false, func(tk *Task, x int) { _ = fp.Limit(); _ = fp.Ordering() }})
		} else {
			st := strategy.NewPreciseStrategyWithMetricRegistry(1+t.Intn(2, "pool-limit"), qr)
			dl, _ := limiter.NewDefaultLimiter(limit.NewFixedLimit("f", 2, qr), 1, 1, 0, 10, st, nopLogger{}, qr)
			gp, err := pool.NewPool(dl, ord, 3, 5*ms, nopLogger{}, qr)
			if err != nil {
				r.Fail("harness", "pool", "%v", err)
				return
			}
			acquire = gp.Acquire
			desc = fmt.Sprintf("pool Pool ordering=%d", ord)
			ops = append(ops, c17op{"delegate.String", false, func(tk *Task, x int) { _ = dl.String() }})
		}
		ops = append(ops, c17op{"Acquire+complete", true, func(tk *Task, x int) {
			ctx, cancel := context.WithTimeout(bg, 15*ms)
			defer cancel()
			if ls, ok := acquire(ctx); ok {
				tk.Sleep(time.Duration(x%3) * ms)
				Complete(ls, x%3)
			}
		}})
	case 6: // gRPC interceptors over real limiters, one instance shared by all tasks
		mk := func() *limiter.DefaultLimiter {
			st := strategy.NewSimpleStrategyWithMetricRegistry(2, qr)
			dl, _ := limiter.NewDefaultLimiter(limit.NewAIMDLimit("aimd", 2, 0.9, 1, qr), 1, 1, 0, 10, st, nopLogger{}, qr)
			return dl
		}
		srv := clgrpc.UnaryServerInterceptor(clgrpc.WithLimiter(mk()))
		cli := clgrpc.UnaryClientInterceptor(clgrpc.WithLimiter(mk()))
		ic := clgrpc.StreamServerInterceptor(clgrpc.WithStreamRecvLimiter(mk()), clgrpc.WithStreamSendLimiter(mk()))
		var wrapped golangGrpc.ServerStream
		ic(nil, statelessStream{}, &golangGrpc.StreamServerInfo{FullMethod: "/s/m"}, func(srv interface{}, ss golangGrpc.ServerStream) error {
			wrapped = ss
			return nil
		})
		desc = "grpc interceptors"
		someErr := fmt.Errorf("boom")
		ops = []c17op{
			{"unary-server", true, func(tk *Task, x int) {
				_, _ = srv(bg, x, &golangGrpc.UnaryServerInfo{FullMethod: "/s/m"}, func(ctx context.Context, req interface{}) (interface{}, error) {
					globalHook(kYield, "handler")
					if x%4 == 0 {
						return nil, someErr
					}
					return x, nil
				})
			}},
			{"unary-client", true, func(tk *Task, x int) {
				_ = cli(bg, "/s/m", x, nil, nil, func(ctx context.Context, method string, req, reply interface{}, cc *golangGrpc.ClientConn, opts ...golangGrpc.CallOption) error {
					globalHook(kYield, "invoker")
					if x%4 == 0 {
						return someErr
					}
					return nil
				})
			}},
			{"stream-recv", true, func(tk *Task, x int) { _ = wrapped.RecvMsg(x) }},
			{"stream-send", true, func(tk *Task, x int) { _ = wrapped.SendMsg(x) }},
		}
	default: // registries
		var reg core.MetricRegistry
		if t.Intn(2, "registry") == 0 {
			reg, _ = gmreg.NewGoMetricsMetricRegistry(gometrics.NewRegistry(), "", "p.", 10*ms)
			desc = "registry gometrics"
		} else {
			w := &memWriter{}
			client, err := statsd.NewWithWriter(w, statsd.WithoutTelemetry(), statsd.WithoutClientSideAggregation(), statsd.WithoutOriginDetection())
			if err != nil {
				r.Fail("harness", "statsd", "%v", err)
				return
			}
			reg, _ = ddreg.NewMetricRegistryWithClient(client, "p.", 10*ms)
			cleanup = func() { client.Close() }
			desc = "registry datadog"
		}
		// registration tags as a caller builds them: a slice with room to grow, handed over with tags...; samples
		// carry tags of their own now and then
		regTags := make([]string, 2, 4)
		regTags[0], regTags[1] = "env:sim", "az:b"
		sampleTags := func(x int) []string {
			if x%2 == 0 {
				return nil
			}
			return []string{fmt.Sprintf("k:%d", x%5)}
		}
		ops = []c17op{
			{"RegisterDistribution+AddSample", true, func(tk *Task, x int) {
				reg.RegisterDistribution(fmt.Sprintf("d%d", x%3), regTags...).AddSample(1, sampleTags(x)...)
			}},
			{"RegisterTiming+AddSample", true, func(tk *Task, x int) {
				reg.RegisterTiming(fmt.Sprintf("t%d", x%3), regTags...).AddSample(2, sampleTags(x)...)
			}},
			{"RegisterCount+AddSample", true, func(tk *Task, x int) {
				reg.RegisterCount(fmt.Sprintf("c%d", x%3), regTags...).AddSample(1, sampleTags(x)...)
			}},
			{"RegisterGauge", true, func(tk *Task, x int) {
				reg.RegisterGauge(fmt.Sprintf("g%d", x%3), func() (float64, bool) { return 1, true }, regTags...)
			}},
			{"Start", true, func(tk *Task, x int) { reg.Start() }},
			{"Stop", true, func(tk *Task, x int) { reg.Stop() }},
			{"sleep", false, func(tk *Task, x int) { tk.Sleep(time.Duration(5+x%20) * ms) }},
		}
		prev := cleanup
		cleanup = func() {
			reg.Stop()
			if prev != nil {
				prev()
			}
		}
	}
	if len(suppliers) > 0 {
		sup := suppliers
		ops = append(ops, c17op{"poll-gauges", false, func(tk *Task, x int) {
			for _, f := range sup {
				_, _ = f()
			}
		}})
	}
	nTasks := 2 + t.Intn(3, "tasks")
	s := r.NewSched()
	s.MaxVirt = time.Minute
	s.MaxSteps = 3000
	mutators := 0
	plan := ""
	for i := 0; i < nTasks; i++ {
		n := 3 + t.Intn(scale(10, 20), "ops")
		var idx, arg []int
		mut := false
		for k := 0; k < n; k++ {
			j := t.Intn(len(ops), "op")
			idx = append(idx, j)
			arg = append(arg, t.Intn(1000, "arg"))
			if ops[j].mutating {
				mut = true
			}
			plan += ops[j].name + ","
		}
		plan += ";"
		if mut {
			mutators++
		}
		s.Go("user", func(tk *Task) {
			for k := range idx {
				tk.Begin(ops[idx[k]].name, nil)
				ops[idx[k]].f(tk, arg[k])
				tk.End(nil)
			}
		})
	}
	r.Mixf("C17 %s tasks=%d plan=%s", desc, nTasks, plan)
	before := raceErrors()
	s.Run()
	if cleanup != nil {
		RootCall(cleanup)
	}
	r.VirtNs = s.Now()
	after := raceErrors()
	if after > before {
		key, txt := lastRaceReport()
		if key == "" {
			key = desc
		}
		r.Fail("data-race", key, "the Go race detector reported %d data race(s) during this run on %s:\n%s", after-before, desc, txt)
		return
	}
	if mutators >= 2 {
		r.Nontrivial = true
	}
}

// cancelledCtx: a context that is already done (created outside any bubble: context.WithCancel involves no timers)
var cancelledCtx = func() context.Context {
	c, cancel := context.WithCancel(context.Background())
	cancel()
	return c
}()
