package harness

import (
	"context"
	"fmt"
	"time"

	"github.com/platinummonkey/go-concurrency-limits/core"
)

// C11 — the queue limiter serves waiters in the configured order.
func init() {
	Register(&Prop{
		ID: "C11", Bubble: true, Run: runC11, QuickRuns: 2500,
		ExpectedProbes: []string{"release_with_two_or_more_waiting", "release_checked", "late_caller_barged_in", "release_with_concurrent_arrival", "partitioned_release_with_two_or_more_waiting", "partitioned_head_refused_nobody_served", "overlapping_releases_checked", "overlapping_releases_with_barging"},
		Rule: "one run = one way of constructing a queue limiter (FromConfig with FIFO / LIFO / empty ordering, WithDefaults, the deprecated Lifo/Fifo constructors with and without defaults, FixedPool and Pool with FIFO/LIFO), limit 1..2, 2..6 waiters whose arrival order is fixed by running each arrival to a stable point, then a seeded sequence of releases, backlog timeouts (distinct arrival instants on the virtual clock) and cancellations; " +
			"oracle: after each release the caller that returns granted is the oldest (FIFO) / newest (LIFO) among those still waiting in a reference list; " +
			"non-trivial = at least one release happened with two or more callers waiting; distinct = distinct (constructor, arrival pattern, action sequence, grants) hashes",
		Real:        []string{"limiter.QueueBlockingLimiter", "limiter.LifoBlockingLimiter", "limiter.FifoBlockingLimiter", "patterns/pool", "limiter.DefaultLimiter", "strategy.*"},
		Stubs:       []string{"logger", "recording metric registry"},
		FaultKinds:  []string{"F-timeout", "F-cancel"},
		Assumptions: []string{"releases are never scheduled at the exact expiry instant of a waiter (the order would be legitimately ambiguous)"},
	})
}

func runC11(r *Run) {
	t := r.T
	if t.Chance(15, "partitioned-delegate") {
		runC11Partitioned(r)
		return
	}
	if t.Chance(15, "overlapping-releases") {
		runC11DoubleRelease(r)
		return
	}
	var c StackCfg
	ctor := t.Intn(12, "ctor")
	c.Strategy = []string{"simple", "precise"}[t.Intn(2, "strategy")]
	c.Limit = 1 + t.Intn(2, "limit")
	c.Backlog = 10
	c.DebugLog = t.Chance(25, "debug-logger")
	// waiters arrive 1 ms apart; timeout chosen so that some expire during the run
	c.Timeout = []time.Duration{time.Hour, 4 * ms, 6 * ms, 9 * ms, -1}[t.Intn(5, "timeout")] // negative: no backlog timeout (queue kinds; the pools clamp it to the default)
	switch ctor {
	case 0:
		c.Kind, c.Ordering = "queue", "fifo"
	case 1:
		c.Kind, c.Ordering = "queue", "lifo"
	case 2:
		c.Kind, c.Ordering = "queue", ""
	case 3:
		c.Kind = "queue-defaults"
		c.Timeout = time.Second
	case 4:
		c.Kind = "lifo-ctor"
	case 5:
		c.Kind = "lifo-ctor-defaults"
		c.Timeout = time.Second
	case 6:
		c.Kind = "fifo-ctor"
	case 7:
		c.Kind = "fifo-ctor-defaults"
		c.Timeout = time.Second
	case 8:
		c.Kind, c.Ordering, c.Strategy = "fixedpool", "fifo", "precise"
	case 9:
		c.Kind, c.Ordering, c.Strategy = "fixedpool", "lifo", "precise"
	case 10:
		c.Kind, c.Ordering = "pool", "fifo"
	case 11:
		c.Kind, c.Ordering = "pool", "lifo"
	}
	if c.Kind == "queue" {
		c.Evict = t.Intn(2, "evict") == 1
	}
	nW := 2 + t.Intn(5, "waiters")
	// arrival spacing: 1 ms (all waiters expire together) or 400 ms (an early waiter may time out while later ones wait on)
	gap := []time.Duration{ms, ms, 400 * ms}[t.Intn(3, "arrival-gap")]
	if (c.Kind == "pool" || c.Kind == "fixedpool") && t.Chance(30, "pool-timeout-0") {
		c.Timeout = 0 // documented: the queue limiter's default backlog timeout of one second applies
	}
	nAct := 1 + t.Intn(6, "actions")
	type action struct {
		kind int // 0 release, 1 sleep, 2 cancel, 3 release while a new caller arrives (may barge in through the fast path)
		d    time.Duration
		w    int
		o    int
	}
	var acts []action
	nBarge := 0
	for i := 0; i < nAct; i++ {
		k := t.Pick([]int{6, 3, 2, 2}, "act")
		a := action{kind: k}
		switch k {
		case 0, 3:
			a.o = t.Intn(3, "outcome")
			if k == 3 {
				nBarge++
			}
		case 1:
			a.d = time.Duration(1+t.Intn(10, "sleep-half-ms")) * (ms / 2) // the orchestrator runs at quarter-ms offsets: never on an expiry instant
			if t.Chance(25, "long-sleep") {
				a.d = []time.Duration{300 * ms, 600 * ms}[t.Intn(2, "long")]
			}
		case 2:
			a.w = t.Intn(nW, "cancel-who")
		}
		acts = append(acts, a)
	}
	r.Mixf("C11 %s waiters=%d gap=%v actions=%v", c, nW, gap, acts)
	st, err := BuildStack(c)
	if err != nil {
		r.Fail("harness", "build", "%v", err)
		return
	}
	if st.Order == "" {
		r.Fail("harness", "order", "no documented order for %s", c)
		return
	}
	s := r.NewSched()
	var held []core.Listener
	for i := 0; i < c.Limit; i++ {
		l, ok := st.Lim.Acquire(bg)
		if !ok {
			r.Fail("refused-with-room", c.Key(), "initial acquire refused")
			return
		}
		held = append(held, l)
	}
	type waiter struct {
		tk           *Task
		arrived      int64
		returned     bool
		granted      bool
		retT         int64
		l            core.Listener
		cancelled    bool
		barger       bool
		started      bool
		goFlag       bool
		preCancelled bool
	}
	ws := make([]*waiter, nW+nBarge)
	var sharedCtx context.Context
	if t.Chance(20, "waiters-share-one-context") {
		var cancelShared context.CancelFunc
		sharedCtx, cancelShared = context.WithCancel(bg)
		defer cancelShared()
		r.Probe("waiters_share_one_context")
	}
	noMidOp := func() bool {
		for _, tk := range s.tasks {
			if tk.MidOp() {
				return false
			}
		}
		return true
	}
	for i := 0; i < nW; i++ {
		i := i
		w := &waiter{}
		// with eviction of done contexts enabled, a caller may arrive already cancelled: it is refused at once and must
		// leave nothing behind in the backlog
		if c.Evict && sharedCtx == nil && i > 0 && t.Chance(15, "arrives-cancelled") {
			w.preCancelled, w.cancelled = true, true
		}
		ws[i] = w
		w.tk = s.Go("waiter", func(tk *Task) {
			// arrival order: waiter i arrives one gap after waiter i-1 is asleep in the backlog
			if i > 0 {
				if !tk.WaitFor("prev-asleep", func() bool { return ws[i-1].tk.BlockedInOp("acquire") || ws[i-1].returned }) {
					return
				}
				tk.Sleep(gap)
			}
			if w.preCancelled {
				tk.Cancel() // arrives with a context that is already done
			}
			tk.Begin("acquire", i)
			w.started = true
			w.arrived = s.Now()
			actx := tk.Ctx
			if sharedCtx != nil {
				actx = sharedCtx // all waiters were handed the same (live) context: they are still separate waiters
			}
			l, ok := st.Lim.Acquire(actx)
			w.l, w.granted, w.returned, w.retT = l, ok, true, s.Now()
			tk.End(ok)
		})
	}
	// callers that arrive exactly while a release is in progress
	for b := 0; b < nBarge; b++ {
		i := nW + b
		w := &waiter{barger: true}
		ws[i] = w
		w.tk = s.Go("late-caller", func(tk *Task) {
			if !tk.WaitFor("release-begins", func() bool { return w.goFlag }) {
				return
			}
			tk.Begin("acquire", i)
			w.started = true
			w.arrived = s.Now()
			l, ok := st.Lim.Acquire(tk.Ctx)
			w.l, w.granted, w.returned, w.retT = l, ok, true, s.Now()
			tk.End(ok)
		})
		w.tk.daemon = true
	}
	effTimeout := c.Timeout
	if effTimeout == 0 || (effTimeout < 0 && (c.Kind == "pool" || c.Kind == "fixedpool")) {
		effTimeout = time.Second
	}
	if effTimeout < 0 {
		effTimeout = 1000 * time.Hour // no timeout
	}
	// reference backlog: still blocked, not cancelled (when eviction is on), not expired; in arrival order
	waiting := func(now int64) []int {
		var idx []int
		for i, w := range ws {
			if !w.started || !w.tk.BlockedInOp("acquire") {
				continue
			}
			if w.cancelled && c.Evict {
				continue
			}
			if w.arrived+int64(effTimeout) <= now {
				continue
			}
			idx = append(idx, i)
		}
		// arrival order (late callers arrive after the scripted waiters, in action order)
		for a := 1; a < len(idx); a++ {
			for b := a; b > 0 && (ws[idx[b]].arrived < ws[idx[b-1]].arrived || (ws[idx[b]].arrived == ws[idx[b-1]].arrived && idx[b] < idx[b-1])); b-- {
				idx[b], idx[b-1] = idx[b-1], idx[b]
			}
		}
		return idx
	}
	releases := 0
	multi := 0
	nextBarger := nW
	orch := s.Go("orchestrator", func(tk *Task) {
		// wait until every scripted waiter is asleep
		if !tk.WaitFor("all-arrived", func() bool {
			for _, w := range ws[:nW] {
				if !w.tk.BlockedInOp("acquire") && !w.returned {
					return false
				}
			}
			return noMidOp()
		}) {
			return
		}
		tk.Sleep(ms / 4) // off the arrival grid
		for _, a := range acts {
			if !tk.WaitFor("settled", noMidOp) {
				return
			}
			switch a.kind {
			case 1:
				tk.Sleep(a.d)
			case 2:
				w := ws[a.w]
				if !w.cancelled && sharedCtx == nil {
					w.cancelled = true
					r.Fault("F-cancel")
					w.tk.Cancel()
				}
			case 0, 3:
				if len(held) == 0 {
					continue
				}
				now := s.Now()
				wl := waiting(now)
				before := map[int]bool{}
				for i, w := range ws {
					before[i] = w.returned && w.granted
				}
				l := held[0]
				held = held[1:]
				var bg2 *waiter
				bi := -1
				if a.kind == 3 && nextBarger < len(ws) {
					bi = nextBarger
					bg2 = ws[bi]
					nextBarger++
					bg2.goFlag = true // the late caller becomes runnable together with the release
					r.Probe("release_with_concurrent_arrival")
				}
				tk.Begin("release", outcomeNames[a.o])
				Complete(l, a.o)
				tk.End(nil)
				if !tk.WaitFor("release-settled", func() bool {
					return noMidOp() && (bg2 == nil || bg2.returned || bg2.tk.BlockedInOp("acquire"))
				}) {
					return
				}
				releases++
				var newly []int
				for i, w := range ws {
					if i != bi && w.returned && w.granted && !before[i] {
						newly = append(newly, i)
					}
				}
				r.Mixf("release at %s: waiting=%v granted=%v late-caller=%v", fmtDur(now), wl, newly, bi)
				if len(wl) >= 2 {
					multi++
				}
				if bg2 != nil && bg2.returned && bg2.granted {
					// the new arrival took the freed token through the fast path: nobody else may have been served
					r.Probe("late_caller_barged_in")
					if len(newly) != 0 {
						s.Fail("over-admission", c.Key(), "one token was released at %s; the late caller got it, yet waiter(s) %v were granted too", fmtDur(now), newly)
						return
					}
					held = append(held, bg2.l)
					continue
				}
				if len(wl) == 0 {
					if len(newly) != 0 {
						s.Fail("grant-to-nonwaiting", c.Key(), "release at %s granted caller(s) %v although nobody was waiting in the reference backlog", fmtDur(now), newly)
						return
					}
					// the token is simply free again; take it back so later releases have something to release
					if bg2 == nil || !bg2.tk.BlockedInOp("acquire") {
						l2, ok := st.Lim.Acquire(bg)
						if ok {
							held = append(held, l2)
						}
					}
					continue
				}
				want := wl[0] // oldest
				if st.Order == "lifo" {
					want = wl[len(wl)-1]
				}
				if len(newly) != 1 || newly[0] != want {
					s.Fail("wrong-order", fmt.Sprintf("%s/%s", c.Key(), st.Order),
						"release at %s with callers %v waiting (arrival order): documented order %s must serve caller %d, but granted=%v [%s]",
						fmtDur(now), wl, st.Order, want, newly, c)
					return
				}
				// the grantee keeps its token; it becomes releasable by the orchestrator
				held = append(held, ws[want].l)
			}
		}
	})
	_ = orch
	s.OnDrain = func() {
		rest := held
		if len(rest) > 0 {
			s.Go("drain-releaser", func(tk *Task) {
				for _, l := range rest {
					l.OnIgnore()
				}
			})
		}
	}
	s.Run()
	r.VirtNs = s.Now()
	if multi > 0 {
		r.Nontrivial = true
		r.Probe("release_with_two_or_more_waiting")
	}
	if releases > 0 {
		r.Probe("release_checked")
	}
}
