package harness

import (
	"context"
	"fmt"
	"github.com/platinummonkey/go-concurrency-limits/verifsim"
	"math"
	"time"

	"github.com/platinummonkey/go-concurrency-limits/core"
	"github.com/platinummonkey/go-concurrency-limits/limit"
	"github.com/platinummonkey/go-concurrency-limits/limiter"
	"github.com/platinummonkey/go-concurrency-limits/strategy"
	"github.com/platinummonkey/go-concurrency-limits/strategy/matchers"
)

func init() {
	Register(&Prop{
		ID: "C05", Bubble: true, Run: runC05, QuickRuns: 1500,
		ExpectedProbes: []string{"estimate_changed_concurrently"},
		Rule: "one run = DefaultLimiter over simple / precise / lookup / predicate strategy (strategy constructed with a limit that differs from the algorithm's estimate) with a scripted limit trajectory (0, negative, repeated, jumps) or AIMD / Vegas / Gradient2; window size 10, period 1 ns so that almost every completion closes a window; 1..4 tasks complete tokens concurrently under a seeded schedule; " +
			"oracle after construction and at every stable point with no completion in flight: strategy limit == max(1, EstimatedLimit()), every partition share == max(1, ceil(that x fraction)), the limit gauges registered with a recording registry report the same values; every OnSample of the algorithm is followed by exactly one SetLimit with the post-sample estimate before the next OnSample; " +
			"non-trivial = the estimate changed at least twice during the concurrent phase; distinct = distinct event hashes",
		Real:       []string{"limiter.DefaultLimiter", "strategy.*", "limit.AIMDLimit", "limit.VegasLimit", "limit.Gradient2Limit"},
		Stubs:      []string{"scripted core.Limit", "recording core.Strategy proxy", "recording metric registry", "logger"},
		FaultKinds: []string{"F-limit", "F-preempt"},
	})
}

// orderLog records the interleaving of OnSample and SetLimit calls.
type orderLog struct {
	ev []orderEv
}
type orderEv struct {
	set  bool
	read bool // EstimatedLimit() read through the logging limit
	v    int
}

type loggingLimit struct {
	inner    core.Limit
	log      *orderLog
	logReads bool
}

func (l *loggingLimit) EstimatedLimit() int {
	v := l.inner.EstimatedLimit()
	if l.logReads {
		l.log.ev = append(l.log.ev, orderEv{read: true, v: v})
	}
	return v
}
func (l *loggingLimit) NotifyOnChange(c core.LimitChangeListener) { l.inner.NotifyOnChange(c) }
func (l *loggingLimit) OnSample(st int64, rtt int64, f int, d bool) {
	l.inner.OnSample(st, rtt, f, d)
	l.log.ev = append(l.log.ev, orderEv{set: false, v: l.inner.EstimatedLimit()})
}

type loggingStrategy struct {
	inner core.Strategy
	log   *orderLog
}

func (p *loggingStrategy) TryAcquire(ctx context.Context) (core.StrategyToken, bool) {
	return p.inner.TryAcquire(ctx)
}
func (p *loggingStrategy) SetLimit(v int) {
	p.log.ev = append(p.log.ev, orderEv{set: true, v: v})
	p.inner.SetLimit(v)
}

func runC05(r *Run) {
	t := r.T
	kind := []string{"simple", "precise", "lookup", "predicate"}[t.Intn(4, "strategy")]
	mode := t.Pick([]int{6, 2, 2, 2, 3}, "limit-kind") // script, aimd, vegas, gradient2, settable (changed from outside)
	initial := 1 + t.Intn(40, "initial")
	stratInit := 1 + t.Intn(40, "strategy-initial")
	if t.Chance(10, "strategy-initial-non-positive") {
		stratInit = []int{0, -3, 0}[t.Intn(3, "strategy-initial-np")] // "let the limiter set it": the estimate is pushed right after construction
		if mode == 0 && t.Chance(60, "initial-estimate-equals-it") {
			initial = stratInit // the scripted algorithm starts at that very (non-positive) estimate: enforcement must still be floored at 1
		}
	}
	reg := &RecRegistry{}
	var strat core.Strategy
	var simple *strategy.SimpleStrategy
	var precise *strategy.PreciseStrategy
	var lookup *strategy.LookupPartitionStrategy
	var pred *strategy.PredicatePartitionStrategy
	ks := []pfrac{{1 + t.Intn(16, "k0"), 32}, {t.Intn(12, "k1"), 32}}
	if t.Chance(35, "non-dyadic-fractions") {
		// fractions that are not exact in binary (1/6, 2/3, 0.07 ...): the share is max(1, ceil(limit x fraction)); where
		// the float product carries a rounding artefact (0.07 x 100 = 7.000000000000001) both the exact value and
		// the float value are accepted
		pool := []pfrac{{1, 6}, {2, 3}, {1, 3}, {7, 100}, {1, 7}, {3, 10}, {11, 20}, {1, 9}, {1, 10}}
		a := pool[t.Intn(len(pool), "frac0")]
		b := pool[t.Intn(len(pool), "frac1")]
		if a.num*b.den+b.num*a.den > a.den*b.den { // keep the sum <= 1
			b = pfrac{1, 10}
			if a.num*10+a.den > a.den*10 {
				a = pfrac{1, 6}
			}
		}
		ks = []pfrac{a, b}
	}
	names := []string{"a", "b"}
	// the limit argument of the partition constructor (a starting value the strategy overrides): 1, or sized like the
	// strategy / the estimate
	partCtorLimit := int32([]int{1, 1, maxInt(1, stratInit), maxInt(1, initial)}[t.Intn(4, "partition-ctor-limit")])
	addLater := (kind == "lookup" || kind == "predicate") && t.Chance(50, "add-partition-later")
	kc := pfrac{1 + t.Intn(4, "k-added"), 32}
	addAfter := time.Duration(t.Intn(6, "add-after")) * time.Nanosecond
	added := false
	// the configuration is reloaded: partition b is removed right before c is added (c may take over b's slot)
	removeFirst := addLater && t.Chance(40, "remove-b-before-adding-c")
	removedB := false
	switch kind {
	case "simple":
		simple = strategy.NewSimpleStrategyWithMetricRegistry(stratInit, reg)
		strat = simple
	case "precise":
		precise = strategy.NewPreciseStrategyWithMetricRegistry(stratInit, reg)
		strat = precise
	case "lookup":
		parts := map[string]*strategy.LookupPartition{}
		for i, n := range names {
			parts[n] = strategy.NewLookupPartitionWithMetricRegistry(n, ks[i].float(), partCtorLimit, reg)
		}
		lookup, _ = strategy.NewLookupPartitionStrategyWithMetricRegistry(parts, nil, int32(stratInit), reg)
		strat = lookup
	case "predicate":
		var parts []*strategy.PredicatePartition
		for i, n := range names {
			parts = append(parts, strategy.NewPredicatePartitionWithMetricRegistry(n, ks[i].float(), matchers.StringPredicateMatcher(n, false), reg))
		}
		pred, _ = strategy.NewPredicatePartitionStrategyWithMetricRegistry(parts, int32(stratInit), reg)
		strat = pred
	}
	var lim core.Limit
	var script *scriptLimit
	var settable *limit.SettableLimit
	switch mode {
	case 0:
		script = &scriptLimit{cur: initial}
		n := 2 + t.Intn(12, "traj-len")
		for i := 0; i < n; i++ {
			script.vals = append(script.vals, []int{1, 2, 7, 0, -5, 33, 64, initial, 3, 100, 65536, 70000, 1 << 20}[t.Intn(13, "traj")])
		}
		lim = script
	case 1:
		lim = limit.NewAIMDLimit("aimd", initial, 0.5, 1+t.Intn(3, "inc"), nil)
	case 2:
		lim = limit.NewDefaultVegasLimitWithLimit("vegas", initial, nopLogger{}, nil)
	case 3:
		lim, _ = limit.NewGradient2Limit("g2", initial, 200, 1, func(int) int { return 4 }, 0.5, 10, nopLogger{}, nil)
	case 4:
		settable = limit.NewSettableLimit("settable", initial, nil)
		lim = settable
	}
	olog := &orderLog{}
	ll := &loggingLimit{inner: lim, log: olog, logReads: true}
	ls := &loggingStrategy{inner: strat, log: olog}
	r.Mixf("C05 strategy=%s(limit %d) limit-kind=%d initial=%d fractions=%v traj=%v", kind, stratInit, mode, initial, ks, func() []int {
		if script != nil {
			return script.vals
		}
		return nil
	}())
	var lg limit.Logger = nopLogger{}
	if t.Chance(25, "debug-logger") {
		lg = &debugLogger{} // formats its arguments: String() of whatever the limiter logs, under whatever lock it holds
	}
	dl, err := limiter.NewDefaultLimiter(ll, 1, 1, 0, 10, ls, lg, core.EmptyMetricRegistryInstance)
	unit := time.Nanosecond
	if t.Chance(8, "with-defaults-constructor") {
		// the other public constructor: default Vegas limit (estimate 20), default windows (1 s, 100 samples);
		// the strategy was built with its own initial limit and must be given the estimate here as well
		dl, err = limiter.NewDefaultLimiterWithDefaults("dflt", ls, lg, core.EmptyMetricRegistryInstance)
		unit = 15 * time.Millisecond
		r.Probe("with_defaults_constructor")
		r.Mixf("  built with NewDefaultLimiterWithDefaults")
	}
	if err != nil {
		r.Fail("harness", "build", "%v", err)
		return
	}
	s := r.NewSched()
	s.LagPct = []int{0, 10, 25}[t.Intn(3, "lag-pct")] // F-lag: DefaultLimiter has no select-based blocking
	getLimit := func() (int, bool) {
		var n int
		ok := RootCall(func() {
			switch {
			case simple != nil:
				n = simple.GetLimit()
			case precise != nil:
				n = precise.GetLimit()
			case lookup != nil:
				n = lookup.Limit()
			default:
				n = pred.Limit()
			}
		})
		return n, ok
	}
	check := func(where string) bool {
		var est int
		if !RootCall(func() { est = dl.EstimatedLimit() }) {
			return true
		}
		want := maxInt(1, est)
		got, ok := getLimit()
		if !ok {
			return true
		}
		if got != want {
			s.Fail("enforced-limit-stale", kind, "%s: the strategy enforces limit %d but the algorithm's estimate is %d (floored: %d)", where, got, est, want)
			return false
		}
		// the partition gauges first: a getter that re-derives a share on demand must not repair what a poller sees
		for i, n := range names {
			if removedB && n == "b" {
				continue
			}
			if g := reg.Gauge(core.MetricPartitionLimit, "partition:"+n); g != nil {
				var v float64
				var ok2 bool
				w, w2 := ks[i].shares(want)
				if RootCall(func() { v, ok2 = g.Value() }) && ok2 && int(v) != w && int(v) != w2 {
					s.Fail("limit-gauge-wrong", kind+"/partition", "%s: the partition gauge of %s reports %v, share is %d", where, n, v, w)
					return false
				}
			}
		}
		if added {
			// the partition added later: its gauge and the caller's own handle follow the estimate like the strategy's view
			if g := reg.Gauge(core.MetricPartitionLimit, "partition:c"); g != nil {
				var v float64
				var ok2 bool
				w, w2 := kc.shares(want)
				if RootCall(func() { v, ok2 = g.Value() }) && ok2 && int(v) != w && int(v) != w2 {
					s.Fail("limit-gauge-wrong", kind+"/added-partition", "%s: the partition gauge of the added partition c reports %v, share is %d", where, v, w)
					return false
				}
			}
		}
		chk, chkK := names, ks
		if removedB {
			chk, chkK = names[:1], ks[:1] // (registration order: a, then c in the predicate strategy)
		}
		if added {
			chk, chkK = append(append([]string{}, chk...), "c"), append(append([]pfrac{}, chkK...), kc)
		}
		for i, n := range chk {
			if lookup == nil && pred == nil {
				break
			}
			var bl int
			var e error
			if !RootCall(func() {
				if lookup != nil {
					bl, e = lookup.BinLimit(n)
				} else {
					bl, e = pred.BinLimit(i)
				}
			}) || e != nil {
				return true
			}
			if w, w2 := chkK[i].shares(want); bl != w && bl != w2 {
				key := kind
				if n == "c" {
					key = kind + "/added-partition"
				}
				s.Fail("share-stale", key, "%s: partition %s (fraction %v) has share %d but the enforced limit %d gives max(1, ceil(limit x fraction)) = %d", where, n, chkK[i], bl, want, w)
				return false
			}
		}
		// gauges
		if g := reg.Gauge(core.MetricLimit); g != nil {
			var v float64
			var ok2 bool
			if RootCall(func() { v, ok2 = g.Value() }) && ok2 && int(v) != want {
				s.Fail("limit-gauge-wrong", kind, "%s: the limit gauge reports %v, enforced value is %d", where, v, want)
				return false
			}
		}
		for i, n := range names {
			if removedB && n == "b" {
				continue
			}
			if g := reg.Gauge(core.MetricPartitionLimit, "partition:"+n); g != nil {
				var v float64
				var ok2 bool
				w, w2 := ks[i].shares(want)
				if RootCall(func() { v, ok2 = g.Value() }) && ok2 && int(v) != w && int(v) != w2 {
					s.Fail("limit-gauge-wrong", kind+"/partition", "%s: the partition gauge of %s reports %v, share is %d", where, n, v, w)
					return false
				}
			}
		}
		return true
	}
	if !check("right after construction") || s.Failed() != nil {
		r.V = s.Failed()
		return
	}
	partKey := func(i int) context.Context {
		if lookup != nil {
			return context.WithValue(bg, matchers.LookupPartitionContextKey, names[i%2])
		}
		if pred != nil {
			return context.WithValue(bg, matchers.StringPredicateContextKey, names[i%2])
		}
		return bg
	}
	// pre-phase: fill the window
	pump := 9 + t.Intn(3, "pump")
	var rtts []time.Duration
	for i := 0; i < pump; i++ {
		rtts = append(rtts, time.Duration(1+t.Intn(3, "pump-rtt"))*unit)
	}
	// on the driving goroutine, with the lock probes armed: nobody else exists yet, so a busy lock can only be one
	// this goroutine holds itself (e.g. a log statement formatting the limiter under the limiter's own lock)
	s.Activate()
	selfDeadlock := ""
	func() {
		defer func() {
			if e := recover(); e != nil {
				if wb, ok := e.(verifsim.WouldBlock); ok {
					selfDeadlock = wb.Site
					return
				}
				panic(e)
			}
		}()
		for i := 0; i < pump; i++ {
			l, ok := dl.Acquire(partKey(i))
			if !ok {
				break
			}
			time.Sleep(rtts[i])
			l.OnSuccess()
		}
	}()
	s.Deactivate()
	if selfDeadlock != "" {
		r.Fail("lock-deadlock", selfDeadlock, "a single goroutine completing tokens one after the other would block forever on the lock at %s, which it already holds (limiter %s)", selfDeadlock, kind)
		return
	}
	if !check("after the sequential pre-phase") || s.Failed() != nil {
		r.V = s.Failed()
		return
	}
	preEv := len(olog.ev)
	nTasks := 1 + t.Intn(4, "tasks")
	var tasks []*Task
	for i := 0; i < nTasks; i++ {
		rounds := 5 + t.Intn(scale(14, 30), "rounds")
		i := i
		var holds []time.Duration
		var outs []int
		for k := 0; k < rounds; k++ {
			holds = append(holds, []time.Duration{1, 2, 3, 1000}[t.Intn(4, "hold")]*unit)
			outs = append(outs, t.Pick([]int{8, 1, 2}, "outcome"))
		}
		tasks = append(tasks, s.Go("completer", func(tk *Task) {
			for k := range holds {
				tk.Begin("acquire", nil)
				l, ok := dl.Acquire(partKey(i + k))
				tk.End(ok)
				if !ok {
					tk.Sleep(holds[k])
					continue
				}
				tk.Sleep(holds[k])
				tk.Begin("complete", outcomeNames[outs[k]])
				Complete(l, outs[k])
				tk.End(nil)
			}
		}))
	}
	if settable != nil {
		nSet := 1 + t.Intn(5, "external-sets")
		var vals []int
		var waits []time.Duration
		for i := 0; i < nSet; i++ {
			vals = append(vals, []int{1, 2, 4, 9, 17, 33, 0, initial}[t.Intn(8, "external-set-v")])
			waits = append(waits, time.Duration(t.Intn(8, "external-set-wait"))*time.Nanosecond)
		}
		r.Mixf("  settable limit changed from outside: %v after %v", vals, waits)
		tasks = append(tasks, s.Go("external-setter", func(tk *Task) {
			for i, v := range vals {
				tk.Sleep(waits[i])
				tk.Begin("Limit.SetLimit", v)
				settable.SetLimit(v)
				tk.End(nil)
			}
		}))
	}
	if addLater {
		tasks = append(tasks, s.Go("partition-adder", func(tk *Task) {
			tk.Sleep(addAfter)
			if removeFirst {
				tk.Begin("RemovePartition", "b")
				if lookup != nil {
					lookup.RemovePartition("b")
				} else {
					pred.RemovePartitionsMatching(context.WithValue(bg, matchers.StringPredicateContextKey, "b"))
				}
				removedB = true
				tk.End(nil)
				r.Fault("F-part:remove")
			}
			tk.Begin("AddPartition", "c")
			if lookup != nil {
				lookup.AddPartition("c", strategy.NewLookupPartitionWithMetricRegistry("c", kc.float(), 1, reg))
			} else {
				pred.AddPartition(strategy.NewPredicatePartitionWithMetricRegistry("c", kc.float(), matchers.StringPredicateMatcher("c", false), reg))
			}
			added = true
			tk.End(nil)
			r.Fault("F-part:add")
		}))
	}
	s.OnStable = func() {
		for _, tk := range tasks {
			if tk.MidOp() {
				return
			}
		}
		if settable != nil {
			return // the estimate moves between windows by design; only completed updates are checked (event log below)
		}
		check("stable point at t=" + fmtDur(s.Now()))
	}
	s.OnQuiescent = func() {
		// also while goroutines spawned by the limiter are still pending: with no caller inside an operation every
		// update that has been reported is complete, and enforcement must already follow the estimate
		if settable != nil {
			return
		}
		for _, tk := range tasks {
			if tk.MidOp() {
				return
			}
		}
		pending := false
		for _, tk := range s.tasks {
			if tk.adopted && tk.parked() {
				pending = true
			}
		}
		if pending {
			r.Probe("checked_with_library_goroutine_pending")
			check("t=" + fmtDur(s.Now()) + ", no caller inside an operation (a goroutine spawned by the limiter is still pending)")
		}
	}
	s.Run()
	r.VirtNs = s.Now()
	if s.Failed() != nil {
		return
	}
	// completed updates: after every OnSample of the algorithm and before the next one, the strategy must
	// have been given the estimate the limiter read after that sample - or already enforce it
	changes := 0
	last := -1 << 30
	enforced := -1 << 30
	for i := 0; i < len(olog.ev); i++ {
		e := olog.ev[i]
		if e.set {
			enforced = maxInt(1, e.v)
			continue
		}
		if e.read {
			continue
		}
		// a sample-driven update
		if i >= preEv && e.v != last {
			changes++
			last = e.v
		}
		want := e.v
		applied := false
		k := i + 1
		for ; k < len(olog.ev); k++ {
			n := olog.ev[k]
			if n.read {
				want = n.v // the estimate the limiter actually read after the update
				continue
			}
			if n.set {
				applied = true
				if maxInt(1, n.v) != maxInt(1, want) {
					r.Fail("setlimit-with-stale-value", kind, "after a sample-driven update the limiter read estimate %d but gave the strategy %d", want, n.v)
					return
				}
			}
			break
		}
		if !applied {
			complete := k < len(olog.ev) || (!s.Truncated && s.Leftover() == 0)
			if complete && enforced != maxInt(1, want) {
				r.Fail("update-not-enforced", kind, "a sample-driven update completed with estimate %d (floored %d) but the strategy still enforces %d and was not told before the next update", want, maxInt(1, want), enforced)
				return
			}
		}
	}
	if s.Lags > 0 {
		r.Fault("F-lag")
	}
	if changes >= 2 {
		r.Nontrivial = true
		r.Probe("estimate_changed_concurrently")
		r.Fault("F-limit")
	}
}

// pfrac: a partition fraction num/den.
type pfrac struct{ num, den int }

func (f pfrac) float() float64 { return float64(f.num) / float64(f.den) }
func (f pfrac) String() string { return fmt.Sprintf("%d/%d", f.num, f.den) }

// shares returns max(1, ceil(L x fraction)) computed exactly and in float64 (equal for dyadic fractions).
func (f pfrac) shares(L int) (exact, float int) {
	exact = (L*f.num + f.den - 1) / f.den
	float = int(math.Ceil(float64(L) * f.float()))
	if exact < 1 {
		exact = 1
	}
	if float < 1 {
		float = 1
	}
	return
}
