package harness

import (
	"fmt"
	"math"

	"github.com/platinummonkey/go-concurrency-limits/core"
	"github.com/platinummonkey/go-concurrency-limits/measurements"
)

func init() {
	Register(&Prop{
		ID: "C18", Bubble: true, ArmLockProbes: true, Run: runC18, QuickRuns: 6000,
		ExpectedProbes: []string{"reset", "concurrent_measurement_checked"},
		Rule: "one run = one measurement primitive (Minimum, Single, ExponentialAverage, SimpleExponentialMovingAverage, SimpleMovingVariance, WindowlessMovingPercentile, ImmutableSampleWindow) with seeded constructor parameters and a history of up to 200 Add / Get / Reset / Update operations over finite positive samples (backend rtts, powers of two, near-equal values); " +
			"oracle: reference fold per primitive (min since reset, last value, arithmetic mean during warm-up then a value inside the hull of the samples, variance >= 0, window = exact summary independent of order, receiver unchanged), Reset == fresh instance (twin run on the remaining history), flag true whenever the stored value changed; " +
			"non-trivial = the history contained a Reset followed by at least two Adds (or, for the sample window, at least three samples incl. a drop); distinct = distinct choice tapes",
		Real:        []string{"measurements.*"},
		Stubs:       []string{},
		Assumptions: []string{"history driver, single goroutine; samples are finite and > 0 (the property's domain)"},
	})
}

type measFactory struct {
	name string
	mk   func() core.MeasurementInterface
}

func drawMeasurement(t *Tape) measFactory {
	switch t.Intn(6, "primitive") {
	case 0:
		return measFactory{"minimum", func() core.MeasurementInterface { return &measurements.MinimumMeasurement{} }}
	case 1:
		return measFactory{"single", func() core.MeasurementInterface { return &measurements.SingleMeasurement{} }}
	case 2:
		w := 1 + t.Intn(600, "window")
		if t.Chance(25, "tiny-window") {
			w = 1 + t.Intn(3, "window-tiny") // window 1: the average is the newest sample
		}
		wu := t.Intn(21, "warmup")
		return measFactory{fmt.Sprintf("expavg(window=%d,warmup=%d)", w, wu), func() core.MeasurementInterface {
			return measurements.NewExponentialAverageMeasurement(w, wu)
		}}
	case 3:
		alpha := []float64{0.05, 0.5, 1.0, 0.2, 0.01, 0.34, 0.8, 0.7, 0.95, 1.0 / 49, 0.4}[t.Intn(11, "alpha")]
		return measFactory{fmt.Sprintf("sema(alpha=%g)", alpha), func() core.MeasurementInterface {
			m, _ := measurements.NewSimpleExponentialMovingAverage(alpha)
			return m
		}}
	case 4:
		a1 := []float64{0.05, 0.5, 1.0, 0.2, 0.8, 0.7}[t.Intn(6, "alpha-avg")]
		a2 := []float64{0.05, 0.5, 1.0, 0.2, 0.8, 0.7}[t.Intn(6, "alpha-var")]
		return measFactory{fmt.Sprintf("variance(%g,%g)", a1, a2), func() core.MeasurementInterface {
			m, _ := measurements.NewSimpleMovingVariance(a1, a2)
			return m
		}}
	default:
		p := []float64{0.9, 0.5, 0.99, 0.1}[t.Intn(4, "p")]
		d := []float64{0.01, 1, 0.5}[t.Intn(3, "delta")]
		a1 := []float64{0.05, 0.5, 0.2, 1.0, 0.8, 0.7}[t.Intn(6, "alpha-avg")]
		a2 := []float64{0.05, 0.5, 0.2, 1.0, 0.8, 0.7}[t.Intn(6, "alpha-var")]
		return measFactory{fmt.Sprintf("percentile(p=%g,delta=%g,%g,%g)", p, d, a1, a2), func() core.MeasurementInterface {
			m, _ := measurements.NewWindowlessMovingPercentile(p, d, a1, a2)
			return m
		}}
	}
}

func primKey(name string) string {
	for i := 0; i < len(name); i++ {
		if name[i] == '(' {
			return name[:i]
		}
	}
	return name
}

type measOp struct {
	kind int // 0 add, 1 get, 2 reset, 3 update
	x    float64
	f    int
}

func applyUpdate(m core.MeasurementInterface, f int) {
	switch f {
	case 0:
		m.Update(func(v float64) float64 { return v * 0.9 })
	case 1:
		m.Update(func(v float64) float64 { return v + 1 })
	case 3:
		m.Update(func(v float64) float64 { return v }) // identity: must be a no-op
	default:
		m.Update(func(v float64) float64 { return 42 })
	}
}

func drawSampleValue(t *Tape, base float64) float64 {
	if t.Chance(6, "tiny-sample") {
		return float64(1+t.Intn(9, "tiny")) * 1e-10 // finite positive, far below any epsilon a clean-up might introduce
	}
	switch t.Intn(6, "value-kind") {
	case 5:
		// small dyadic values (arithmetic progressions, exactly representable deviations)
		return float64(4 * (1 + t.Intn(8, "dyadic")))
	case 0:
		return base * (1 + float64(t.Intn(1000, "v"))/1000)
	case 1:
		return math.Ldexp(1, t.Intn(62, "pow2")) // up to 2^61: next to small samples, differences are no longer exact in float64
	case 2:
		return base + float64(t.Intn(3, "near"))
	case 3:
		return float64(1 + t.Intn(1000000, "small"))
	default:
		return base * float64(1+t.Intn(20, "mult"))
	}
}

func runC18(r *Run) {
	t := r.T
	if t.Intn(7, "window?") == 0 {
		runC18Window(r)
		return
	}
	if t.Chance(6, "concurrent") {
		runC18Concurrent(r)
		return
	}
	mf := drawMeasurement(t)
	key := primKey(mf.name)
	n := 5 + t.Intn(scale(196, 600), "ops")
	base := []float64{1e6, 100, 5e7, 3}[t.Intn(4, "base")]
	var ops []measOp
	prevX, havePrev := 0.0, false
	for i := 0; i < n; i++ {
		k := t.Pick([]int{12, 2, 1, 1}, "op")
		op := measOp{kind: k}
		switch k {
		case 0:
			op.x = drawSampleValue(t, base)
			if havePrev && t.Chance(20, "repeat-sample") {
				op.x = prevX // runs of identical samples: zero deltas, unchanged minima, flags that must stay false
			}
			prevX, havePrev = op.x, true
		case 3:
			op.f = t.Intn(4, "update-f")
		}
		ops = append(ops, op)
	}
	r.Mixf("C18 %s ops=%d", mf.name, n)
	m := mf.mk()
	var twin core.MeasurementInterface // fresh instance started at the last Reset
	// reference state since reset
	var since []float64
	hullLo, hullHi, hullSet := 0.0, 0.0, false // range of the samples added and the values installed by Update since reset
	widen := func(x float64) {
		if !hullSet {
			hullLo, hullHi, hullSet = x, x, true
			return
		}
		hullLo, hullHi = math.Min(hullLo, x), math.Max(hullHi, x)
	}
	pure := true // only Adds since reset (no Update)
	resets, addsAfterReset := 0, 0
	varPrev, varKnown := 0.0, true
	warm := -1
	var w, wu int
	var alpha float64
	if key == "expavg" {
		fmt.Sscanf(mf.name, "expavg(window=%d,warmup=%d)", &w, &wu)
		warm = wu
	}
	if key == "sema" {
		fmt.Sscanf(mf.name, "sema(alpha=%g)", &alpha)
		// the documented minimum sample count is ceil(1/alpha); strictly before it the value is the arithmetic mean
		warm = int(math.Ceil(1/alpha)) - 1
	}
	for i, op := range ops {
		switch op.kind {
		case 0:
			stored := m.Get()
			v, flag := m.Add(op.x)
			if r.Verbose {
				r.Notef("op %d Add(%v) -> (%v,%v) stored before %v", i, op.x, v, flag, stored)
			}
			after := m.Get()
			if math.IsNaN(v) || math.IsInf(v, 0) || math.IsNaN(after) {
				r.Fail("not-finite", key, "Add(%v) returned %v (Get %v) [%s]", op.x, v, after, mf.name)
				return
			}
			if key == "variance" && after >= 0 {
				// what Add returns is the standard deviation of the variance Get reports - after every Add, whatever
				// Update did to the stored value before
				if sd := math.Sqrt(after); math.Abs(v-sd) > 1e-9*math.Max(1, sd) {
					r.Fail("wrong-value", key+"/stdev", "Add(%v) returned %v as the standard deviation while Get() reports the variance %v (square root %v) [%s]", op.x, v, after, sd, mf.name)
					return
				}
			}
			if key == "variance" {
				// Add returns (and stores) the standard deviation while Get reports the variance; Update overwrites
				// the stored deviation only. The flag is therefore compared with the previously returned deviation,
				// and only while no Update intervened.
				if varKnown && v != varPrev && !flag {
					r.Fail("flag-false-on-change", key, "Add(%v) changed the stored deviation from %v to %v but reported changed=false [%s]", op.x, varPrev, v, mf.name)
					return
				}
				varPrev, varKnown = v, true
			} else if after != stored && !flag {
				r.Fail("flag-false-on-change", key, "Add(%v) changed the stored value from %v to %v but reported changed=false [%s]", op.x, stored, after, mf.name)
				return
			}
			since = append(since, op.x)
			widen(op.x)
			if key == "expavg" || key == "sema" || key == "minimum" || key == "single" {
				// also after Updates: whatever Update installed is part of the range, and nothing these primitives
				// compute leaves the range of what went in
				if e := 1e-9 * math.Max(math.Abs(hullHi), math.Abs(hullLo)); after < hullLo-e || after > hullHi+e {
					r.Fail("wrong-value", key+"/range", "after Add(%v) the value %v lies outside the range [%v, %v] of the samples added and values installed by Update since the last reset [%s]", op.x, after, hullLo, hullHi, mf.name)
					return
				}
			}
			if resets > 0 {
				addsAfterReset++
			}
			if twin != nil {
				tv, tf := twin.Add(op.x)
				if tv != v || tf != flag || twin.Get() != after {
					r.Fail("reset-not-like-new", key, "after Reset, Add(%v) (operation %d) returned (%v,%v) with Get()=%v but a new instance fed the same operations since the Reset returned (%v,%v) with Get()=%v [%s]", op.x, i, v, flag, after, tv, tf, twin.Get(), mf.name)
					return
				}
			}
			if pure {
				lo, hi := since[0], since[0]
				sum := 0.0
				for _, x := range since {
					sum += x
					lo, hi = math.Min(lo, x), math.Max(hi, x)
				}
				eps := 1e-9 * hi
				switch key {
				case "minimum":
					if v != lo || after != lo {
						r.Fail("wrong-value", key, "minimum of %d samples since reset is %v but Add returned %v / Get %v", len(since), lo, v, after)
						return
					}
				case "single":
					if v != op.x || after != op.x {
						r.Fail("wrong-value", key, "latest sample is %v but Add returned %v / Get %v", op.x, v, after)
						return
					}
				case "expavg", "sema":
					if len(since) <= warm {
						mean := sum / float64(len(since))
						if math.Abs(after-mean) > 1e-9*math.Abs(mean)+1e-12 {
							r.Fail("wrong-value", key, "during warm-up (%d of %d samples) the value must be the arithmetic mean %v, got %v [%s]", len(since), warm, mean, after, mf.name)
							return
						}
					} else if key == "expavg" && w == 1 && len(since) > warm && len(since) > 1 && math.Abs(after-op.x) > 1e-9*math.Abs(op.x) {
						// a window of one sample puts the whole weight on the newest sample
						r.Fail("wrong-value", key+"/window1", "exponential average over a window of 1 is %v after Add(%v): the newest sample carries the whole weight [%s]", after, op.x, mf.name)
						return
					} else if after < lo-eps || after > hi+eps {
						r.Fail("wrong-value", key, "exponential average %v lies outside the range [%v, %v] of the samples seen since reset [%s]", after, lo, hi, mf.name)
						return
					}
				case "variance":
					if after < 0 || v < 0 {
						r.Fail("wrong-value", key, "negative variance/stdev: Get %v, Add returned %v", after, v)
						return
					}
				}
			}
		case 1:
			g := m.Get()
			if twin != nil && twin.Get() != g {
				r.Fail("reset-not-like-new", key, "Get() = %v but a new instance fed the same operations since the Reset reports %v [%s]", g, twin.Get(), mf.name)
				return
			}
		case 2:
			m.Reset()
			varPrev, varKnown = 0, true
			twin = mf.mk()
			since = nil
			hullSet = false
			pure = true
			resets++
			addsAfterReset = 0
			r.Probe("reset")
			if g, tg := m.Get(), twin.Get(); g != tg {
				r.Fail("reset-not-like-new", key, "right after Reset Get() = %v, a new instance reports %v [%s]", g, tg, mf.name)
				return
			}
		case 3:
			beforeU := m.Get()
			applyUpdate(m, op.f)
			if op.f == 3 {
				if g := m.Get(); math.Abs(g-beforeU) > 1e-9*math.Abs(beforeU) && !(math.IsNaN(g) && math.IsNaN(beforeU)) {
					r.Fail("wrong-value", key+"/identity-update", "Update with the identity function changed Get() from %v to %v [%s]", beforeU, g, mf.name)
					return
				}
			}
			widen(m.Get())
			varKnown = false
			if twin != nil {
				applyUpdate(twin, op.f)
				if g, tg := m.Get(), twin.Get(); g != tg && !(math.IsNaN(g) && math.IsNaN(tg)) {
					r.Fail("reset-not-like-new", key, "after Update Get() = %v, the twin started at the Reset reports %v [%s]", g, tg, mf.name)
					return
				}
			}
			pure = false
		}
	}
	if resets > 0 && addsAfterReset >= 2 {
		r.Nontrivial = true
	}
}

func runC18Window(r *Run) {
	t := r.T
	n := 1 + t.Intn(30, "samples")
	type ws struct {
		rtt  int64
		f    int
		drop bool
	}
	var samples []ws
	drops := 0
	for i := 0; i < n; i++ {
		s := ws{rtt: 1 + int64(t.Intn(2000000, "rtt")), f: t.Intn(200, "inflight"), drop: t.Chance(20, "drop")}
		if s.drop {
			drops++
		}
		samples = append(samples, s)
	}
	r.Mixf("C18 sample-window samples=%d drops=%d", n, drops)
	fold := func(order []int) *measurements.ImmutableSampleWindow {
		w := measurements.NewDefaultImmutableSampleWindow()
		for _, i := range order {
			s := samples[i]
			before := *w
			var nw *measurements.ImmutableSampleWindow
			if s.drop {
				nw = w.AddDroppedSample(1, s.f)
			} else {
				nw = w.AddSample(1, s.rtt, s.f)
			}
			if *w != before {
				r.Fail("window-receiver-mutated", "window", "AddSample/AddDroppedSample modified its receiver")
			}
			w = nw
		}
		return w
	}
	order := make([]int, n)
	for i := range order {
		order[i] = i
	}
	w1 := fold(order)
	// reference
	minR, sum, cnt, maxF, drop := int64(math.MaxInt64), int64(0), 0, 0, false
	for _, s := range samples {
		if s.f > maxF {
			maxF = s.f
		}
		if s.drop {
			drop = true
			continue
		}
		cnt++
		sum += s.rtt
		if s.rtt < minR {
			minR = s.rtt
		}
	}
	avg := int64(0)
	if cnt > 0 {
		avg = sum / int64(cnt)
	}
	if w1.CandidateRTTNanoseconds() != minR || w1.SampleCount() != cnt || w1.MaxInFlight() != maxF || w1.DidDrop() != drop || w1.AverageRTTNanoseconds() != avg {
		r.Fail("wrong-value", "window", "window of %d samples: got (min=%d count=%d maxInFlight=%d drop=%v avg=%d), expected (min=%d count=%d maxInFlight=%d drop=%v avg=%d)",
			n, w1.CandidateRTTNanoseconds(), w1.SampleCount(), w1.MaxInFlight(), w1.DidDrop(), w1.AverageRTTNanoseconds(), minR, cnt, maxF, drop, avg)
		return
	}
	// shuffled copy
	for i := n - 1; i > 0; i-- {
		j := t.Intn(i+1, "shuffle")
		order[i], order[j] = order[j], order[i]
	}
	w2 := fold(order)
	if w2.CandidateRTTNanoseconds() != minR || w2.SampleCount() != cnt || w2.MaxInFlight() != maxF || w2.DidDrop() != drop || w2.AverageRTTNanoseconds() != avg {
		r.Fail("window-order-dependent", "window", "the same multiset of samples in another order gives a different window: %v vs %v", w1, w2)
		return
	}
	if n >= 3 && drops > 0 && cnt > 0 {
		r.Nontrivial = true
	}
}

// runC18Concurrent: Add / Update / Reset issued from several goroutines on one instance (the
// update function itself contains a scheduling point). The final value must be one that some
// sequential order of the same operations produces on a fresh instance (per-task order kept).
func runC18Concurrent(r *Run) {
	t := r.T
	mf := drawMeasurement(t)
	key := primKey(mf.name)
	nTasks := 2 + t.Intn(2, "tasks")
	scripts := make([][]measOp, nTasks)
	total := 0
	for i := range scripts {
		n := 1 + t.Intn(2, "ops")
		for k := 0; k < n; k++ {
			op := measOp{kind: []int{0, 0, 3, 2}[t.Intn(4, "op")]}
			op.x = float64(4 * (1 + t.Intn(8, "x")))
			op.f = t.Intn(2, "update-f")
			scripts[i] = append(scripts[i], op)
			total++
		}
	}
	r.Mixf("C18 concurrent %s scripts=%v", mf.name, scripts)
	apply := func(m core.MeasurementInterface, op measOp, yield bool) {
		switch op.kind {
		case 0:
			m.Add(op.x)
		case 2:
			m.Reset()
		case 3:
			m.Update(func(v float64) float64 {
				if yield {
					globalHook(kYield, "update-fn")
				}
				if op.f == 0 {
					return v*0.5 + 1
				}
				return v + 2
			})
		}
	}
	shared := mf.mk()
	shared.Add(16) // a common starting point
	s := r.NewSched()
	for i := range scripts {
		sc := scripts[i]
		s.Go("user", func(tk *Task) {
			for _, op := range sc {
				tk.Begin("op", op.kind)
				apply(shared, op, true)
				tk.End(nil)
			}
		})
	}
	s.Run()
	if s.Failed() != nil || s.Truncated || s.Leftover() > 0 {
		return
	}
	final := shared.Get()
	reach := map[float64]bool{}
	pos := make([]int, nTasks)
	var order []measOp
	var rec func(left int)
	rec = func(left int) {
		if left == 0 {
			m := mf.mk()
			m.Add(16)
			for _, op := range order {
				apply(m, op, false)
			}
			reach[m.Get()] = true
			return
		}
		for i := range scripts {
			if pos[i] < len(scripts[i]) {
				order = append(order, scripts[i][pos[i]])
				pos[i]++
				rec(left - 1)
				pos[i]--
				order = order[:len(order)-1]
			}
		}
	}
	rec(total)
	r.Probe("concurrent_measurement_checked")
	if len(reach) > 1 {
		r.Nontrivial = true
	}
	ok := reach[final]
	if !ok && final != final { // NaN never equals itself
		for v := range reach {
			if v != v {
				ok = true
			}
		}
	}
	if !ok {
		r.Fail("concurrent-ops-not-serializable", key, "operations %v issued from %d goroutines left Get() = %v; no sequential order of the same operations on a fresh instance gives that value (possible: %v) - an operation was not atomic [%s]", scripts, nTasks, final, reach, mf.name)
	}
}
