package harness

import (
	"fmt"
	"math/rand"

	"github.com/platinummonkey/go-concurrency-limits/core"
	"github.com/platinummonkey/go-concurrency-limits/limit"
)

func init() {
	Register(&Prop{
		ID: "C08", Bubble: false, ArmLockProbes: true, Run: runC08, QuickRuns: 6000,
		ExpectedProbes: []string{"pair_checked", "skipped_probe", "skipped_baseline_changed"},
		Rule: "one run = twin instances of Vegas / Gradient / Gradient2 built with the same configuration and the same math/rand seed, fed the same seeded prefix history (asserted: equal estimate and baseline), then one final sample differing only in rtt (baseline <= rtt_low < rtt_high); oracle: estimate(high) <= estimate(low); pairs where the final sample was a probe or lowered the baseline are skipped and counted; " +
			"non-trivial = the pair was not skipped and at least one twin changed its estimate on the final sample; distinct = distinct choice tapes",
		Real:        []string{"limit.VegasLimit", "limit.GradientLimit", "limit.Gradient2Limit", "measurements.*"},
		Stubs:       []string{"logger"},
		FaultKinds:  []string{"F-latency", "F-drop", "F-idle"},
		Assumptions: []string{"hidden jitter draws are made identical by rand.Seed (GODEBUG randseednop=0)"},
	})
	Register(&Prop{
		ID: "C15", Bubble: false, ArmLockProbes: true, Run: runC15, QuickRuns: 2000,
		ExpectedProbes: []string{"rtt_stepped_up"},
		Rule: "one run = Vegas (probe multiplier 1..60) or Gradient (probe interval 1..2000 or disabled) fed 200..1700 samples with rtt in [1, 2^53): backend model with step changes up and down, spikes and plateaus; an observer that needs no private state keeps the set of reset positions consistent with every RTTNoLoad() seen so far; " +
			"oracle: baseline unset or <= current rtt; the feasible set never empties (baseline is the minimum of the samples since some reset); the most recent feasible reset is younger than multiplier x (largest estimate+1) + 1 (Vegas) / 2 x interval (Gradient); " +
			"non-trivial = the rtt level stepped up at least once so that an obsolete baseline had to be replaced by a probe; distinct = distinct choice tapes",
		Real:        []string{"limit.VegasLimit", "limit.GradientLimit", "measurements.MinimumMeasurement"},
		Stubs:       []string{"logger"},
		FaultKinds:  []string{"F-latency"},
		Assumptions: []string{"rtt < 2^53 so RTTNoLoad round-trips exactly through float64"},
	})
	Register(&Prop{
		ID: "C16", Bubble: true, ArmLockProbes: true, Run: runC16, QuickRuns: 5000,
		ExpectedProbes: []string{"estimate_changed_with_listeners", "concurrent_notifications_checked"},
		Rule: "one run = one limit implementation (AIMD, Vegas, Gradient, Gradient2, Settable, Fixed) bare or under windowed / traced / both wrappers, 0..4 listeners registered through the outermost wrapper at seeded points of a 20..200 operation history (samples incl. faults, SetLimit for the settable limit); " +
			"oracle after every operation: if EstimatedLimit() changed, every listener registered before the operation was called during it; every listener called has last delivered value == EstimatedLimit(); wrapper estimate == delegate estimate; the traced wrapper forwards sample arguments unchanged to a recording delegate; " +
			"non-trivial = the estimate changed at least once while at least one listener was registered, with a listener registered after the first change; distinct = distinct choice tapes",
		Real:       []string{"limit.*"},
		Stubs:      []string{"recording core.Limit delegate (traced forwarding sub-check)", "logger"},
		FaultKinds: []string{"F-latency", "F-drop", "F-idle", "F-clock"},
	})
}

func runC08(r *Run) {
	t := r.T
	cfg := drawAlgoCfg(t, []string{"vegas", "gradient", "gradient2"}, nil)
	k := int64(t.Draw(1<<40, "twin-seed"))
	nPrefix := t.Intn(scale(200, 900), "prefix")
	if t.Chance(10, "short-prefix") || ((cfg.Ctor != "" || cfg.Max < cfg.Initial) && t.Chance(60, "short-prefix-ctor")) {
		nPrefix = t.Intn(4, "prefix-short") // the state right after construction (plus the sample that sets the baseline)
	}
	g := newEnvGen(r)
	g.maxRTT = 1 << 52
	if cfg.Name == "gradient2" && t.Chance(50, "g2-small-units") {
		// small time units and a large limit: whole-unit effects on the long-term average become visible
		g.base = []int64{10, 15, 100, 7}[t.Intn(4, "g2-base")]
		cfg.Initial = 40 + t.Intn(300, "g2-initial")
		cfg.Max = cfg.Initial + t.Intn(600, "g2-max")
		cfg.Min = 1 + t.Intn(10, "g2-min")
		cfg.LongWindow = []int{10, 50, 100}[t.Intn(3, "g2-window")]
		cfg.Smoothing = []float64{1.0, 0.5, 0.2}[t.Intn(3, "g2-smoothing")]
	}
	rand.Seed(k)
	a, err := buildAlgo(cfg, false)
	if err != nil {
		r.Fail("harness", "build", "%v", err)
		return
	}
	var hist []Sample
	est := a.Lim.EstimatedLimit()
	for i := 0; i < nPrefix; i++ {
		s := g.next(est)
		hist = append(hist, s)
		if p := safeSample(a.Lim, s); p != nil {
			r.Probe("skipped_panic_in_prefix")
			return // C04's finding
		}
		est = a.Lim.EstimatedLimit()
	}
	rand.Seed(k)
	b, _ := buildAlgo(cfg, false)
	for _, s := range hist {
		if p := safeSample(b.Lim, s); p != nil {
			return
		}
	}
	estA, estB := a.Lim.EstimatedLimit(), b.Lim.EstimatedLimit()
	var baseA, baseB int64
	if a.NoLoad != nil {
		baseA, baseB = a.NoLoad(), b.NoLoad()
	}
	if estA != estB || baseA != baseB {
		r.Fail("harness", "twins-diverged", "twin instances diverged on the same history: estimate %d vs %d, baseline %d vs %d", estA, estB, baseA, baseB)
		return
	}
	if estA < 1 {
		r.Probe("skipped_poisoned_state")
		return
	}
	base := baseA
	if base < 1 {
		base = 1
	}
	lo := base
	switch t.Intn(4, "rlo-kind") {
	case 1:
		lo = base + int64(t.Intn(1000, "rlo-add"))
	case 2:
		lo = base * int64(1+t.Intn(8, "rlo-mult"))
	case 3:
		lo = base + base/int64(2+t.Intn(20, "rlo-frac"))
	}
	hi := lo + 1
	switch t.Intn(4, "rhi-kind") {
	case 1:
		hi = lo + 1 + int64(t.Intn(100000, "rhi-add"))
	case 2:
		hi = lo * int64(2+t.Intn(30, "rhi-mult"))
	case 3:
		hi = lo + lo/int64(1+t.Intn(50, "rhi-frac")) + 1
	}
	if cfg.Name == "gradient2" && len(hist) > 0 && t.Chance(60, "g2-near-long-rtt") {
		// gradient in (0.5, 1): rtt between the recent level and twice that; neighbouring values
		lvl := hist[len(hist)-1].RTT
		if lvl < 1 {
			lvl = 1
		}
		lo = lvl + lvl*int64(t.Intn(9, "g2-k"))/8
		hi = lo + 1 + int64(t.Intn(3, "g2-d"))
	}
	if cfg.Name == "vegas" && estA > 1 && baseA > 0 && t.Chance(40, "vegas-queue-pair") {
		// the control signal is queue = ceil(limit x (1 - baseline/rtt)): a pair of rtts that yields two chosen queue
		// estimates q1 < q2 (0 .. 14), so that every threshold between the increase, keep and decrease zones is straddled
		rttFor := func(q int) int64 {
			if q <= 0 {
				return base
			}
			den := float64(estA) - float64(q) + 0.5
			if den <= 0 {
				den = 0.5
			}
			return int64(float64(base) * float64(estA) / den)
		}
		q1 := t.Intn(minInt(estA, 14)+1, "q-lo")
		q2 := q1 + 1 + t.Intn(6, "q-step")
		if l, h := rttFor(q1), rttFor(q2); l >= base && h > l {
			lo, hi = l, h
			r.Probe("vegas_pair_by_queue_estimate")
		}
	}
	if cfg.Name == "gradient" && a.qfunc != nil && estA > 1 && t.Chance(50, "gradient-near-break-even") {
		// around the rtt at which the new limit equals the old one (gradient x est + queue == est): decreases of a
		// fraction of a unit, where a rounding or a smoothing decision can flip between two neighbouring rtts
		q := float64(a.qfunc(estA))
		if frac := 1 - q/float64(estA); frac > 0.5 {
			be := float64(base) * cfg.Tolerance / frac
			lo = int64(be * (1 + float64(t.Intn(81, "be-lo")-40)/1000))
			hi = lo + 1 + int64(float64(lo)*float64(1+t.Intn(30, "be-hi"))/1000)
			if lo < 1 {
				lo = 1
			}
			r.Probe("gradient_pair_near_break_even")
		}
	}
	if t.Chance(8, "round-constant-pair") {
		// a pair straddling a round duration (1 ms, 1 s, 1 min, 1 h, 1 day in ns): where plausibility cut-offs and
		// unit conversions live
		c := []int64{1e6, 1e9, 6e10, 36e11, 864e11}[t.Intn(5, "round-constant")]
		lo = c - int64(t.Intn(3, "below"))
		hi = c + 1 + int64(t.Intn(3, "above"))
		r.Probe("pair_straddles_round_duration")
	}
	if hi > 1<<60 || hi <= lo {
		hi = lo + 1
	}
	inflight := g.pickInflight(estA)
	drop := t.Chance(20, "final-drop")
	// the start time of the final sample: none, right after the history, or after a quiet period chosen so that
	// a round duration since the last completion ends between the two completions of the pair
	var start int64
	if len(hist) > 0 && t.Chance(25, "final-start-time") {
		lastEnd := int64(0)
		for _, h := range hist {
			if e := h.Start + h.RTT; e > lastEnd {
				lastEnd = e
			}
		}
		start = lastEnd + int64(t.Intn(1000000, "final-gap"))
		if t.Chance(50, "quiet-gap-pair") {
			// 0: the pair's completions straddle the newest completion of the history (requests overtake each other)
			c := []int64{1e9, 6e10, 36e11, 864e11, 0}[t.Intn(5, "quiet-gap")]
			w := hi - lo
			if w > 1000 {
				w = 1000
			}
			if st := lastEnd + c - lo - int64(t.Intn(int(w), "quiet-gap-k")); st > 0 && st < 1<<61 {
				start = st
				r.Probe("pair_straddles_quiet_period")
			}
		}
		if start+hi < 0 {
			start = 0
		}
	}
	r.Mixf("C08 %s prefix=%d est=%d baseline=%d final rtt %d vs %d inflight=%d drop=%v start=%d", cfg, nPrefix, estA, baseA, lo, hi, inflight, drop, start)
	if p := safeSample(a.Lim, Sample{Start: start, RTT: lo, InFlight: inflight, Drop: drop}); p != nil {
		r.Fail("panic", algoKey(a, "OnSample"), "OnSample panicked: %v", p)
		return
	}
	if p := safeSample(b.Lim, Sample{Start: start, RTT: hi, InFlight: inflight, Drop: drop}); p != nil {
		r.Fail("panic", algoKey(a, "OnSample"), "OnSample panicked: %v", p)
		return
	}
	newA, newB := a.Lim.EstimatedLimit(), b.Lim.EstimatedLimit()
	if a.NoLoad != nil {
		na, nb := a.NoLoad(), b.NoLoad()
		if cfg.Name == "gradient" && (na == 0 || nb == 0) {
			r.Probe("skipped_probe")
			return
		}
		if na != baseA || nb != baseB {
			// probe (vegas) or first baseline / lowered baseline
			r.Probe("skipped_baseline_changed")
			return
		}
	}
	if newB > newA {
		r.Fail("not-monotone-in-rtt", cfg.Name, "same history, same in-flight %d, drop=%v: rtt %d gives estimate %d but the higher rtt %d gives %d (before: %d, baseline %d) [%s]", inflight, drop, lo, newA, hi, newB, estA, baseA, cfg)
		return
	}
	r.Probe("pair_checked")
	if newA != estA || newB != estA {
		r.Nontrivial = true
	}
}

func runC15(r *Run) {
	t := r.T
	var cfg algoCfg
	if t.Intn(2, "algo") == 0 {
		cfg = algoCfg{Name: "vegas", Initial: 1 + t.Intn(60, "initial"), Smoothing: smoothings[t.Intn(len(smoothings), "smoothing")]}
		cfg.Max = cfg.Initial + t.Intn(300, "max")
		cfg.ProbeMult = 1 + t.Intn(60, "mult")
		if t.Chance(8, "smallest-probe-period") {
			cfg.ProbeMult, cfg.Initial, cfg.Max = 1, 1, 1+t.Intn(2, "tiny-max") // resets due within (multiplier x limit) = 1..2 samples
		}
		if t.Chance(15, "default-constructor") {
			// NewDefaultVegasLimit / NewDefaultVegasLimitWithLimit: probe multiplier 30, maximum 1000, no smoothing
			cfg.Ctor, cfg.ProbeMult, cfg.Max, cfg.Smoothing = "default-with-limit", 30, 1000, 1.0
			if t.Chance(50, "full-default") {
				cfg.Ctor, cfg.Initial = "default", 20
			}
		}
	} else {
		cfg = algoCfg{Name: "gradient", Initial: 4 + t.Intn(60, "initial"), Smoothing: smoothings[t.Intn(len(smoothings), "smoothing")], Tolerance: 2.0}
		cfg.Min = 1 + t.Intn(4, "min")
		cfg.Max = cfg.Initial + t.Intn(300, "max")
		cfg.QFix = 1 + t.Intn(4, "q")
		cfg.ProbeInterval = []int{-1, 1, 2, 5, 30, 300, 2000, 7}[t.Intn(8, "interval")]
	}
	a, err := buildAlgo(cfg, false)
	if err != nil {
		r.Fail("harness", "build", "%v", err)
		return
	}
	n := 200 + t.Intn(scale(1501, 4000), "samples")
	level := []int64{1e6, 1e3, 5e7, 100}[t.Intn(4, "level")]
	r.Mixf("C15 %s samples=%d level=%d", cfg, n, level)
	rtts := make([]int64, 0, n)
	ests := make([]int, 0, n)
	// feasible baseline origins: b == min(rtts[from..i]) (min of nothing = 0 = unset); 0 = construction
	feas := []int{0}
	stepUps := 0
	segLeft := 0
	var segKind int
	zeros := t.Chance(40, "allow-zero-rtt")
	startTimes := t.Chance(40, "report-start-times")
	dropStreak := 0
	for i := 0; i < n; i++ {
		if segLeft == 0 {
			segKind = t.Pick([]int{6, 2, 2, 1, 1}, "rtt-seg")
			segLeft = 5 + t.Intn(120, "rtt-seg-len")
			switch segKind {
			case 1: // step up
				level = level*int64(2+t.Intn(4, "up-x")) + 1
				if level > 1<<50 {
					level = 1 << 50
				}
				stepUps++
				r.Fault("F-latency:step-up")
			case 2: // step down
				level = level/int64(2+t.Intn(4, "down-x")) + 1
				r.Fault("F-latency:step-down")
			}
		}
		segLeft--
		rtt := level + int64(t.Intn(int(level/4)+1, "jitter"))
		if segKind == 3 { // spike
			rtt = level * int64(3+t.Intn(20, "spike"))
		} else if segKind == 4 { // plateau: constant
			rtt = level
		}
		if rtt < 1 {
			rtt = 1
		}
		if rtt >= 1<<53 {
			rtt = 1<<53 - 1
		}
		if zeros && t.Chance(3, "zero-rtt") {
			rtt = 0 // stalled clock: a zero RTT leaves the baseline unset
			r.Fault("F-latency:rtt0")
		}
		est := a.Lim.EstimatedLimit()
		inflight := est
		if t.Chance(20, "idle") {
			inflight = est / 4
		}
		s := Sample{RTT: rtt, InFlight: inflight, Drop: t.Chance(3, "drop")}
		if dropStreak > 0 {
			s.Drop = true // an outage: every request fails for a while (probes are due during it as well)
			dropStreak--
		} else if t.Chance(1, "drop-streak") {
			dropStreak = 5 + t.Intn(120, "drop-streak-len")
			r.Fault("F-loss:streak")
		}
		if startTimes {
			// start times as a caller may report them: not monotone (requests finish out of order, clocks step back)
			s.Start = int64(t.Intn(1<<30, "start-time"))
		}
		if p := safeSample(a.Lim, s); p != nil {
			r.Fail("panic", algoKey(a, "OnSample"), "OnSample panicked on %v: %v", s, p)
			return
		}
		rtts = append(rtts, rtt)
		ests = append(ests, maxInt(est, a.Lim.EstimatedLimit()))
		b := a.NoLoad()
		if b != 0 && b > rtt {
			r.Fail("baseline-above-sample", cfg.Name, "after sample %d (rtt %d) the no-load baseline is %d, greater than the sample just seen [%s]", i, rtt, b, cfg)
			return
		}
		// update the feasible origins
		var nf []int
		if rtt == 0 {
			// the baseline is unset from here on (b == 0 was checked above); measuring restarts after this sample
			nf = []int{i + 1}
		} else {
			for _, from := range feas {
				if from > i {
					if b == 0 {
						nf = append(nf, from)
					}
					continue
				}
				if minOf(rtts[from:i+1]) == b {
					nf = append(nf, from)
				}
			}
			if cfg.Name == "vegas" {
				// a probe replaces the baseline with this sample
				if b == rtt && (len(nf) == 0 || nf[len(nf)-1] != i) {
					nf = append(nf, i)
				}
			} else if b == 0 {
				// gradient probe: baseline unset, measuring restarts after this sample
				nf = append(nf, i+1)
			}
		}
		if r.Verbose && i < 80 {
			r.Notef("sample %d rtt=%d est=%d baseline=%d feasible origins=%v", i, rtt, est, b, tailInts(nf, 6))
		}
		if len(nf) == 0 {
			r.Fail("baseline-not-a-minimum", cfg.Name, "after sample %d (rtt %d) the baseline %d is not the minimum of the samples since any possible reset (feasible origins before: %v) [%s]", i, rtt, b, tailInts(feas, 8), cfg)
			return
		}
		feas = nf
		// resets recur
		last := feas[len(feas)-1]
		age := i + 1 - last
		bound := 0
		switch {
		case cfg.Name == "vegas":
			from := minInt(last, i)
			mx := 1
			for _, e := range ests[from : i+1] {
				if e > mx {
					mx = e
				}
			}
			bound = cfg.ProbeMult*(mx+1) + 2
		case cfg.ProbeInterval != -1:
			bound = 2*cfg.ProbeInterval + 1
		}
		if bound > 0 && age >= bound+1 {
			r.Fail("baseline-reset-overdue", cfg.Name, "at sample %d the most recent reset consistent with the observed baselines has its measuring origin at sample %d (%d samples ago); the bound is %d [%s]", i, last, age, bound, cfg)
			return
		}
		if len(feas) > 64 {
			feas = feas[len(feas)-64:]
		}
	}
	if stepUps > 0 {
		r.Nontrivial = true
		r.Probe("rtt_stepped_up")
	}
}

func minOf(x []int64) int64 {
	if len(x) == 0 {
		return 0
	}
	m := x[0]
	for _, v := range x[1:] {
		if v < m {
			m = v
		}
	}
	return m
}

func tailInts(x []int, n int) []int {
	if len(x) <= n {
		return x
	}
	return x[len(x)-n:]
}

type noteListener struct {
	regAt     int
	calls     int
	last      int
	callsInOp int
}

// recLimit records the samples it receives (delegate for the traced forwarding sub-check).
type recLimit struct {
	est int
	got []Sample
	lst []core.LimitChangeListener
}

func (l *recLimit) EstimatedLimit() int                       { return l.est }
func (l *recLimit) NotifyOnChange(c core.LimitChangeListener) { l.lst = append(l.lst, c) }
func (l *recLimit) OnSample(st int64, rtt int64, f int, d bool) {
	l.got = append(l.got, Sample{Start: st, RTT: rtt, InFlight: f, Drop: d})
}

func runC16(r *Run) {
	t := r.T
	if t.Chance(8, "concurrent") {
		runC16Concurrent(r)
		return
	}
	cfg := drawAlgoCfg(t, []string{"aimd", "vegas", "gradient", "gradient2", "settable", "fixed"}, []string{"", "windowed", "traced", "traced+windowed", "windowed+traced"})
	a, err := buildAlgo(cfg, false)
	if err != nil {
		r.Fail("harness", "build", "%v", err)
		return
	}
	g := newEnvGen(r)
	g.noZero = true // rtt=0 poisons Gradient/Gradient2 (C04's finding); C16 is about notifications
	g.maxRTT = 1 << 53
	n := 20 + t.Intn(scale(181, 800), "ops")
	nl := t.Intn(5, "listeners")
	if t.Chance(8, "many-listeners") {
		nl = 9 + t.Intn(12, "listeners-many") // "any number of listeners"
	}
	// a second limit of the same kind alive in the same process, with a listener of its own: each limit's listeners
	// hear about that limit only
	var sib *algo
	sibAt := -1
	sibL := &noteListener{}
	if t.Chance(25, "sibling-limit") {
		if sb, e := buildAlgo(cfg, false); e == nil {
			sib, sibAt = sb, t.Intn(n, "sibling-listener-at")
		}
	}
	var regAt []int
	for i := 0; i < nl; i++ {
		regAt = append(regAt, t.Intn(n, "register-at"))
	}
	r.Mixf("C16 %s ops=%d listeners at %v", cfg, n, regAt)
	var ls []*noteListener
	// traced forwarding sub-check
	rec := &recLimit{est: 7}
	var trLog limit.Logger = nopLogger{}
	if t.Chance(50, "traced-debug-logger") {
		trLog = &debugLogger{} // the debug path of the wrapper formats what it forwards: it must still forward it unchanged
	}
	tr := limit.NewTracedLimit(rec, trLog)
	changes, firstChange, lateReg := 0, -1, false
	for i := 0; i < n; i++ {
		for _, at := range regAt {
			if at == i {
				l := &noteListener{regAt: i}
				ls = append(ls, l)
				a.Lim.NotifyOnChange(func(v int) { l.calls++; l.callsInOp++; l.last = v })
				if firstChange >= 0 {
					lateReg = true
				}
			}
		}
		if sib != nil && i == sibAt {
			sib.Lim.NotifyOnChange(func(v int) { sibL.calls++; sibL.last = v })
			r.Probe("sibling_limit_with_own_listener")
		}
		before, p := safeEstimate(a.Lim)
		if p != nil {
			return
		}
		for _, l := range ls {
			l.callsInOp = 0
		}
		sibCallsBefore := sibL.calls
		desc := ""
		if cfg.Name == "settable" && t.Chance(40, "set?") {
			v := []int{1, 5, 0, 12, before, 100, 3, -1, -7}[t.Intn(9, "set-v")]
			a.Inner.(*limit.SettableLimit).SetLimit(v)
			desc = "SetLimit(" + itoa(v) + ")"
		} else {
			s := g.next(before)
			if s.Start+s.RTT < 0 {
				s.Start = 0
			}
			if pp := safeSample(a.Lim, s); pp != nil {
				r.Probe("skipped_panic")
				return
			}
			// the forwarding sub-check also sees what the algorithms above are spared: zero RTTs, with and without a drop
			ts := s
			if t.Chance(12, "traced-zero-rtt") {
				ts.RTT = 0
				ts.Drop = t.Chance(50, "traced-zero-rtt-drop")
			}
			nBefore := len(rec.got)
			tr.OnSample(ts.Start, ts.RTT, ts.InFlight, ts.Drop)
			if len(rec.got) != nBefore+1 {
				r.Fail("traced-altered-sample", "traced/count", "TracedLimit forwarded %d samples to its delegate for one sample %v", len(rec.got)-nBefore, ts)
				return
			}
			if got := rec.got[len(rec.got)-1]; got != ts {
				r.Fail("traced-altered-sample", "traced", "TracedLimit forwarded %v for sample %v", got, ts)
				return
			}
			desc = s.String()
		}
		if sibL.calls != sibCallsBefore {
			r.Fail("listener-of-other-limit-called", algoKey(a, ""), "operation %d %s on one limit called the listener registered on another limit of the same kind (with %d) [%s]", i, desc, sibL.last, cfg)
			return
		}
		after, _ := safeEstimate(a.Lim)
		if inner, _ := safeEstimate(a.Inner); inner != after {
			r.Fail("wrapper-estimate-differs", algoKey(a, ""), "wrapper reports %d, delegate %d", after, inner)
			return
		}
		if r.Verbose {
			r.Notef("op %d %s: %d -> %d", i, desc, before, after)
		}
		if after != before {
			changes++
			if firstChange < 0 {
				firstChange = i
			}
			for j, l := range ls {
				if l.callsInOp == 0 {
					r.Fail("listener-not-notified", algoKey(a, ""), "operation %d %s changed the estimate from %d to %d but listener %d (registered at operation %d) was not called [%s]", i, desc, before, after, j, l.regAt, cfg)
					return
				}
			}
		}
		for j, l := range ls {
			if l.callsInOp > 0 && l.last != after {
				r.Fail("listener-stale-value", algoKey(a, ""), "after operation %d %s EstimatedLimit() is %d but the last value delivered to listener %d is %d [%s]", i, desc, after, j, l.last, cfg)
				return
			}
		}
	}
	if tr.EstimatedLimit() != 7 {
		r.Fail("wrapper-estimate-differs", "traced", "traced wrapper reports %d for a delegate reporting 7", tr.EstimatedLimit())
	}
	if changes > 0 && len(ls) > 0 {
		r.Probe("estimate_changed_with_listeners")
		if lateReg {
			r.Nontrivial = true
		}
	}
}

// runC16Concurrent: samples reported from several goroutines. Whatever the interleaving, once
// everything has returned the last value delivered to every listener equals EstimatedLimit().
func runC16Concurrent(r *Run) {
	t := r.T
	kind := t.Intn(4, "limit")
	initial := 3 + t.Intn(10, "initial")
	var lim core.Limit
	switch kind {
	case 0:
		lim = limit.NewAIMDLimit("aimd", initial, 0.5, 1+t.Intn(2, "inc"), nil)
	case 1:
		lim = limit.NewTracedLimit(limit.NewAIMDLimit("aimd", initial, 0.5, 1, nil), nopLogger{})
	case 2:
		lim = limit.NewDefaultVegasLimitWithLimit("vegas", initial, nopLogger{}, nil)
	default:
		lim, _ = limit.NewGradient2Limit("g2", initial, 100, 1, func(int) int { return 2 }, 0.5, 10, nopLogger{}, nil)
	}
	nl := 1 + t.Intn(2, "listeners")
	lasts := make([]int, nl)
	calls := make([]int, nl)
	for i := 0; i < nl; i++ {
		i := i
		lim.NotifyOnChange(func(v int) {
			globalHook(kYield, "listener") // a listener that takes its time
			lasts[i] = v
			calls[i]++
		})
	}
	nTasks := 2 + t.Intn(2, "tasks")
	s := r.NewSched()
	plan := ""
	for k := 0; k < nTasks; k++ {
		n := 1 + t.Intn(3, "samples")
		var fs []int
		var ds []bool
		for j := 0; j < n; j++ {
			fs = append(fs, []int{initial, initial + 5, 2 * initial, 1}[t.Intn(4, "inflight")])
			ds = append(ds, t.Chance(25, "drop"))
		}
		plan += fmt.Sprint(fs, ds, ";")
		s.Go("sampler", func(tk *Task) {
			for j := range fs {
				tk.Begin("OnSample", fs[j])
				lim.OnSample(0, 1000+int64(j), fs[j], ds[j])
				tk.End(nil)
			}
		})
	}
	// a listener registered WHILE samples are being reported: afterwards it is a listener like any other, and its
	// registration must not disturb what the samples did to the estimate
	lateLast, lateCalls, lateRegistered := 0, 0, false
	if t.Chance(50, "concurrent-registration") {
		s.Go("registrar", func(tk *Task) {
			tk.Begin("NotifyOnChange", nil)
			lim.NotifyOnChange(func(v int) {
				lateLast = v
				lateCalls++
			})
			lateRegistered = true
			tk.End(nil)
		})
	}
	r.Mixf("C16 concurrent kind=%d initial=%d listeners=%d plan=%s", kind, initial, nl, plan)
	s.Run()
	if s.Failed() != nil || s.Truncated || s.Leftover() > 0 {
		return
	}
	if lateRegistered {
		// one more, sequential, estimate-changing sample: every listener - the late one included - hears about it
		before := lim.EstimatedLimit()
		for k := 0; k < 6 && lim.EstimatedLimit() == before; k++ {
			lim.OnSample(0, 1000, 4*before+10, k%2 == 1)
		}
		if after := lim.EstimatedLimit(); after != before {
			r.Probe("late_listener_checked")
			if lateCalls == 0 || lateLast != after {
				r.Fail("listener-not-notified", fmt.Sprintf("concurrent/kind%d/late-registration", kind), "a listener was registered while samples were being reported from %d goroutines; a later sample moved the estimate from %d to %d but that listener was called %d time(s), last with %d", nTasks, before, after, lateCalls, lateLast)
				return
			}
		}
	}
	est := lim.EstimatedLimit()
	changed := false
	for i := 0; i < nl; i++ {
		if calls[i] > 0 {
			changed = true
			if lasts[i] != est {
				r.Fail("listener-stale-value", fmt.Sprintf("concurrent/kind%d", kind), "samples were reported from %d goroutines; after all of them returned EstimatedLimit() is %d but the last value delivered to listener %d is %d (it was called %d times)", nTasks, est, i, lasts[i], calls[i])
				return
			}
		} else if est != initial {
			r.Fail("listener-not-notified", fmt.Sprintf("concurrent/kind%d", kind), "the estimate moved from %d to %d under concurrent samples but listener %d was never called", initial, est, i)
			return
		}
	}
	if changed {
		r.Nontrivial = true
		r.Probe("concurrent_notifications_checked")
	}
}
