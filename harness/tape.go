package harness

// Tape: the single source of every random choice of a simulated run
// (scenario, faults, schedule). In generation mode values come from a
// splitmix64 stream seeded with the run seed and are recorded; in replay mode
// they are read back. Shrinking edits the recorded tape (delete / zero /
// lower) and re-runs; generators are written so that smaller values mean
// simpler choices (0 = "keep running the current task", fewest tasks, ...).

type Tape struct {
	state   uint64
	replay  bool
	in      []uint64
	pos     int
	Out     []uint64
	Labels  []string // only filled when Verbose
	Verbose bool
	overrun int
}

//go:norace
func splitmix(x *uint64) uint64 {
	*x += 0x9e3779b97f4a7c15
	z := *x
	z = (z ^ (z >> 30)) * 0xbf58476d1ce4e5b9
	z = (z ^ (z >> 27)) * 0x94d049bb133111eb
	return z ^ (z >> 31)
}

// Mix derives a run seed from (seed, property, worker, run).
//
//go:norace
func Mix(vals ...uint64) uint64 {
	s := uint64(0x243f6a8885a308d3)
	for _, v := range vals {
		x := s ^ v
		s = splitmix(&x) + 0x632be59bd9b4e019
	}
	return s
}

//go:norace
func HashString(s string) uint64 {
	h := uint64(14695981039346656037)
	for i := 0; i < len(s); i++ {
		h ^= uint64(s[i])
		h *= 1099511628211
	}
	return h
}

//go:norace
func NewTape(seed uint64) *Tape { return &Tape{state: seed} }

//go:norace
func ReplayTape(vals []uint64) *Tape {
	return &Tape{replay: true, in: vals}
}

// Draw returns a value in [0, n). n must be >= 1.
//
//go:norace
func (t *Tape) Draw(n uint64, label string) uint64 {
	if n <= 1 {
		// still consume a slot so that tapes stay aligned when ranges change
		n = 1
	}
	var v uint64
	if t.replay {
		if t.pos < len(t.in) {
			v = t.in[t.pos] % n
		} else {
			t.overrun++
			v = 0
		}
		t.pos++
	} else {
		v = splitmix(&t.state) % n
	}
	t.Out = append(t.Out, v)
	if t.Verbose {
		t.Labels = append(t.Labels, label)
	}
	return v
}

//go:norace
func (t *Tape) Intn(n int, label string) int {
	if n <= 0 {
		n = 1
	}
	return int(t.Draw(uint64(n), label))
}

// Range returns a value in [lo, hi] (inclusive).
//
//go:norace
func (t *Tape) Range(lo, hi int, label string) int {
	if hi < lo {
		hi = lo
	}
	return lo + t.Intn(hi-lo+1, label)
}

// Chance returns true with probability pct/100; false is the "simple" value.
//
//go:norace
func (t *Tape) Chance(pct int, label string) bool {
	return t.Intn(100, label) >= 100-pct
}

// Pick returns an index weighted by w (0 weights allowed); index 0 is simplest.
//
//go:norace
func (t *Tape) Pick(w []int, label string) int {
	tot := 0
	for _, x := range w {
		tot += x
	}
	if tot <= 0 {
		return 0
	}
	v := t.Intn(tot, label)
	for i, x := range w {
		if v < x {
			return i
		}
		v -= x
	}
	return len(w) - 1
}

// Int64 returns a value in [0, 2^63).
//
//go:norace
func (t *Tape) Int63(label string) int64 {
	return int64(t.Draw(1<<63, label))
}
