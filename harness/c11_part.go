package harness

import (
	"fmt"
	"time"

	"github.com/platinummonkey/go-concurrency-limits/core"
)

// C11 over a context-dependent delegate: the queue limiter sits on a DefaultLimiter with a partitioned
// strategy, so whether the delegate admits a waiter depends on the waiter's own context. The head of the
// backlog (oldest for FIFO, newest for LIFO) may be refused by the delegate while a later waiter would be
// admitted: the configured order still decides who is asked. Whoever is granted after a release must be the
// head at that moment; nobody may overtake it.
func runC11Partitioned(r *Run) {
	t := r.T
	c := StackCfg{Kind: "queue", Strategy: []string{"lookup", "predicate"}[t.Intn(2, "strategy")], Limit: 4, Backlog: 10, Timeout: time.Hour}
	c.Ordering = []string{"fifo", "lifo"}[t.Intn(2, "ordering")]
	c.Evict = t.Intn(2, "evict") == 1
	c.DebugLog = t.Chance(25, "debug-logger")
	st, err := BuildStack(c)
	if err != nil {
		r.Fail("harness", "build", "%v", err)
		return
	}
	// holders: partition a borrows up to the total, then b takes its guaranteed share on top; or a random mix
	var preKeys []string
	if t.Chance(60, "a-borrows-all") {
		for i := 0; i < c.Limit+t.Intn(2, "extra-a"); i++ {
			preKeys = append(preKeys, "a")
		}
		for i := 0; i < 1+t.Intn(2, "pre-b"); i++ {
			preKeys = append(preKeys, "b")
		}
	} else {
		for i := 0; i < c.Limit+1+t.Intn(3, "pre-n"); i++ {
			preKeys = append(preKeys, []string{"a", "b"}[t.Intn(2, "pre-key")])
		}
	}
	type heldTok struct {
		key string
		l   core.Listener
	}
	var held []heldTok
	// through the queue limiter itself (its listeners hand released capacity to the backlog); only requests the
	// partition rule admits, so that the driving goroutine never queues: total < limit, or the partition under its
	// share (a: ceil(4 x 0.5) = 2, b: ceil(4 x 0.25) = 1)
	total, busy, shareOf := 0, map[string]int{}, map[string]int{"a": 2, "b": 1}
	for _, k := range preKeys {
		if !(total < c.Limit || busy[k] < shareOf[k]) {
			continue
		}
		l, ok := st.Lim.Acquire(st.PartCtx(bg, k))
		if !ok {
			r.Fail("refused-with-room", c.Key()+"/"+c.Strategy, "initial acquire for partition %q refused with %d in flight (limit %d, partition at %d of share %d)", k, total, c.Limit, busy[k], shareOf[k])
			return
		}
		total++
		busy[k]++
		held = append(held, heldTok{k, l})
	}
	nW := 2 + t.Intn(3, "waiters")
	wKeys := make([]string, nW)
	for i := range wKeys {
		wKeys[i] = []string{"a", "b"}[t.Intn(2, "waiter-key")]
	}
	nRel := 1 + t.Intn(len(held), "releases")
	relIdx := make([]int, nRel)
	for i := range relIdx {
		relIdx[i] = t.Intn(len(held), "release-which")
	}
	r.Mixf("C11 partitioned %s held=%v waiters=%v releases=%v", c, preKeys, wKeys, relIdx)
	s := r.NewSched()
	type pw struct {
		tk       *Task
		returned bool
		granted  bool
		l        core.Listener
	}
	ws := make([]*pw, nW)
	for i := 0; i < nW; i++ {
		i := i
		w := &pw{}
		ws[i] = w
		w.tk = s.Go("waiter", func(tk *Task) {
			tk.Sleep(time.Duration(i+1) * ms) // distinct arrival instants: the backlog order is the index order
			tk.Begin("acquire", wKeys[i])
			l, ok := st.Lim.Acquire(st.PartCtx(tk.Ctx, wKeys[i]))
			w.l, w.granted, w.returned = l, ok, true
			tk.End(ok)
		})
	}
	checked, overtakable := 0, 0
	s.Go("orchestrator", func(tk *Task) {
		tk.Sleep(time.Duration(nW+1)*ms + ms/4)
		var waiting []int // arrival order
		for i, w := range ws {
			if !w.returned {
				waiting = append(waiting, i)
			}
		}
		released := map[int]bool{}
		for _, hi := range relIdx {
			if released[hi] || len(waiting) == 0 {
				continue
			}
			released[hi] = true
			head := waiting[0]
			if st.Order == "lifo" {
				head = waiting[len(waiting)-1]
			}
			tk.Begin("complete", held[hi].key)
			held[hi].l.OnSuccess()
			tk.End(nil)
			tk.Sleep(ms / 2) // everything the release caused has happened (time only passes when nothing can run)
			var still []int
			for _, wi := range waiting {
				w := ws[wi]
				if !w.returned {
					still = append(still, wi)
					continue
				}
				if w.granted && wi != head {
					s.Fail("grant-out-of-order", c.Key()+"/"+c.Strategy, "after the release of a %q token, waiter %d (partition %q) was granted while waiter %d (partition %q), the %s-order head of the backlog %v, is still waiting: the order decides who is offered the capacity, also when the delegate admits by partition [%s]", held[hi].key, wi, wKeys[wi], head, wKeys[head], st.Order, waiting, c)
					return
				}
				if !w.granted {
					s.Fail("waiter-refused", c.Key()+"/"+c.Strategy, "waiter %d returned refused with a one-hour backlog timeout and no cancellation [%s]", wi, c)
					return
				}
			}
			if len(waiting) >= 2 {
				checked++
				if len(still) == len(waiting) {
					overtakable++ // the head was refused by the delegate: nobody may be served instead
				}
			}
			waiting = still
		}
	})
	s.OnDrain = func() {
		// let the blocked waiters go
	}
	s.Run()
	r.VirtNs = s.Now()
	if checked > 0 {
		r.Nontrivial = true
		r.Probe("partitioned_release_with_two_or_more_waiting")
	}
	if overtakable > 0 {
		r.Probe("partitioned_head_refused_nobody_served")
	}
	_ = fmt.Sprint
}
