package harness

import (
	"bytes"
	"context"
	"fmt"
	"strings"
	"sync"
	"time"

	"github.com/DataDog/datadog-go/v5/statsd"
	gometrics "github.com/rcrowley/go-metrics"

	"github.com/platinummonkey/go-concurrency-limits/core"
	"github.com/platinummonkey/go-concurrency-limits/limit"
	ddreg "github.com/platinummonkey/go-concurrency-limits/metric_registry/datadog"
	gmreg "github.com/platinummonkey/go-concurrency-limits/metric_registry/gometrics"
	"github.com/platinummonkey/go-concurrency-limits/strategy"
	"github.com/platinummonkey/go-concurrency-limits/strategy/matchers"
)

func init() {
	// go-metrics starts one global meter-arbiter goroutine on the first meter; it must not belong to a bubble
	gometrics.NewMeter().Stop()

	Register(&Prop{
		ID: "C20", Bubble: true, ArmLockProbes: true, Run: runC20, QuickRuns: 2000,
		ExpectedProbes: []string{"start_or_stop_while_live", "gauge_polled", "decisions_overlapped"},
		Rule: "one run = (a) a recording metric registry under a strategy (simple / precise / lookup / predicate) and a limit implementation (AIMD, Vegas, Gradient, Gradient2, Fixed, Settable, windowed) driven by a seeded history: every in-flight sample equals the ledger count at the admission decision, limit / partition gauges equal the enforced values, every OnSample emits exactly one rtt, one in-flight and (iff drop) one dropped sample; or (b) the real go-metrics or datadog registry inside the bubble (fresh go-metrics registry; real statsd client over an in-memory writer): seeded sequences of Register*, AddSample, Start, Stop (repeated, out of order), sleeps of k x pollFrequency so that Stop lands on a tick, under a seeded schedule that includes the poller goroutine; " +
			"oracle (b): each sample reaches the backend metric of the right kind under prefix+id; gauge suppliers are called only between Start and the return of Stop, at most once per tick and gauge (two Starts must not double the rate) and at least once per two ticks; Start / Stop return; nothing polls after the final Stop; " +
			"non-trivial = (a) at least one refusal and one drop sample, (b) a Stop or second Start happened while the poller was live; distinct = distinct event hashes / tapes",
		Real:        []string{"metric_registry/gometrics.MetricRegistry", "metric_registry/datadog.MetricRegistry", "github.com/rcrowley/go-metrics", "github.com/DataDog/datadog-go/v5/statsd client", "core.CommonMetricSampler", "strategy.*", "limit.*"},
		Stubs:       []string{"in-memory statsd writer (no socket)", "recording core.MetricRegistry (part a)", "gauge suppliers that log their invocation instants"},
		FaultKinds:  []string{"F-clock(tick coincides with Stop/Start)", "F-preempt", "F-drop"},
		Assumptions: []string{"third-party client code runs real but un-instrumented (no preemption inside it)"},
	})
}

func runC20(r *Run) {
	switch r.T.Pick([]int{4, 3, 3, 2}, "part") {
	case 3:
		runC20ConcurrentSamples(r)
	case 0:
		runC20Recording(r)
	case 1:
		runC20Registry(r, "gometrics")
	default:
		runC20Registry(r, "datadog")
	}
}

// ---------- (a) recording registry ----------

func runC20Recording(r *Run) {
	t := r.T
	reg := &RecRegistry{}
	kind := []string{"simple", "precise", "lookup", "predicate"}[t.Intn(4, "strategy")]
	L := 1 + t.Intn(6, "limit")
	var strat core.Strategy
	names := []string{"a", "b"}
	ks := []int{1 + t.Intn(16, "k0"), t.Intn(12, "k1")}
	switch kind {
	case "simple":
		strat = strategy.NewSimpleStrategyWithMetricRegistry(L, reg)
	case "precise":
		strat = strategy.NewPreciseStrategyWithMetricRegistry(L, reg)
	case "lookup":
		parts := map[string]*strategy.LookupPartition{}
		for i, n := range names {
			parts[n] = strategy.NewLookupPartitionWithMetricRegistry(n, float64(ks[i])/32, 1, reg)
		}
		s, _ := strategy.NewLookupPartitionStrategyWithMetricRegistry(parts, nil, int32(L), reg)
		strat = s
	default:
		var parts []*strategy.PredicatePartition
		for i, n := range names {
			parts = append(parts, strategy.NewPredicatePartitionWithMetricRegistry(n, float64(ks[i])/32, matchers.StringPredicateMatcher(n, false), reg))
		}
		s, _ := strategy.NewPredicatePartitionStrategyWithMetricRegistry(parts, int32(L), reg)
		strat = s
	}
	r.Mixf("C20a strategy=%s L=%d fractions=%v", kind, L, ks)
	ctxFor := func(key string) context.Context {
		switch kind {
		case "lookup":
			return context.WithValue(bg, matchers.LookupPartitionContextKey, key)
		case "predicate":
			return context.WithValue(bg, matchers.StringPredicateContextKey, key)
		}
		return bg
	}
	total := 0
	bin := map[string]int{}
	type held struct {
		tok core.StrategyToken
		key string
	}
	var out []held
	refusals := 0
	n := 10 + t.Intn(60, "ops")
	var lastSample *struct {
		st *RecStream
		v  float64
	}
	reg.OnSample = func(st *RecStream, v float64, tags []string) {
		lastSample = &struct {
			st *RecStream
			v  float64
		}{st, v}
	}
	for i := 0; i < n && !r.Failed(); i++ {
		act := t.Pick([]int{6, 4, 1}, "op")
		if act == 1 && len(out) == 0 {
			act = 0
		}
		switch act {
		case 0:
			key := names[t.Intn(2, "key")]
			lastSample = nil
			tok, ok := strat.TryAcquire(ctxFor(key))
			partitioned := kind == "lookup" || kind == "predicate"
			if ok {
				total++
				bin[key]++
				out = append(out, held{tok, key})
				if got := tok.InFlightCount(); got != total {
					r.Fail("inflight-metric-wrong", kind+"/token", "granted token reports in-flight %d, %d tokens are outstanding", got, total)
					return
				}
			} else {
				refusals++
			}
			if lastSample == nil {
				if !partitioned || ok {
					r.Fail("inflight-metric-missing", kind, "TryAcquire (granted=%v) emitted no in-flight sample", ok)
					return
				}
				continue
			}
			want := float64(total)
			if partitioned {
				want = float64(bin[key])
				if !hasAll(lastSample.st.Tags, []string{"partition:" + key}) {
					r.Fail("inflight-metric-wrong", kind+"/tag", "in-flight sample of a %q request carries tags %v", key, lastSample.st.Tags)
					return
				}
			}
			if lastSample.st.ID != core.MetricInFlight || lastSample.v != want {
				r.Fail("inflight-metric-wrong", kind, "TryAcquire (granted=%v) sampled %s=%v, the in-flight count at the admission decision is %v", ok, lastSample.st.ID, lastSample.v, want)
				return
			}
		case 1:
			k := t.Intn(len(out), "which")
			h := out[k]
			out = append(out[:k], out[k+1:]...)
			h.tok.Release()
			total--
			bin[h.key]--
		case 2:
			v := []int{1, 2, 5, 9, 0, 33}[t.Intn(6, "setlimit")]
			strat.SetLimit(v)
			L = maxInt(1, v)
		}
		// gauges
		if g := reg.Gauge(core.MetricLimit); g != nil {
			if v, ok := g.Value(); !ok || int(v) != L {
				r.Fail("limit-gauge-wrong", kind, "limit gauge reports %v, enforced limit is %d", v, L)
				return
			}
		} else {
			r.Fail("limit-gauge-missing", kind, "no limit gauge registered")
			return
		}
		if kind == "lookup" || kind == "predicate" {
			for j, nme := range names {
				g := reg.Gauge(core.MetricPartitionLimit, "partition:"+nme)
				if g == nil {
					r.Fail("limit-gauge-missing", kind+"/partition", "no partition gauge for %s", nme)
					return
				}
				if v, ok := g.Value(); !ok || int(v) != share(L, ks[j]) {
					r.Fail("limit-gauge-wrong", kind+"/partition", "partition %s gauge reports %v, share is %d", nme, v, share(L, ks[j]))
					return
				}
			}
		}
	}
	// limits: every processed sample emits rtt + in-flight once, dropped iff drop
	cfg := drawAlgoCfg(t, []string{"aimd", "vegas", "gradient", "gradient2", "fixed", "settable"}, []string{"", "", "windowed"})
	cfg.EmptyName = t.Chance(20, "empty-limit-name")
	a, err := buildAlgo(cfg, true)
	reg2 := a.Reg
	if err != nil {
		r.Fail("harness", "build", "%v", err)
		return
	}
	g := newEnvGen(r)
	g.noZero = !t.Chance(50, "allow-zero-rtt") // zero RTTs (also together with a drop) are samples like any other for the metrics
	g.maxRTT = 1 << 50
	m := 5 + t.Intn(60, "samples")
	drops := 0
	outer := a.Cfg.Name
	if cfg.EmptyName {
		outer = ""
	}
	if cfg.Wrap == "windowed" {
		outer = "windowed"
	}
	// documented naming, written out here (not taken from the library's helper): "<name>.<metric>", and a limit
	// without a name reports under "default."
	mname := func(metric string) string {
		n := outer
		if n == "" {
			n = "default"
		}
		if strings.HasSuffix(n, ".") {
			return n + metric
		}
		return n + "." + metric
	}
	rttS := reg2.Stream("timing", mname(core.MetricRTT))
	infS := reg2.Stream("distribution", mname(core.MetricInFlight))
	drpS := reg2.Stream("count", mname(core.MetricDropped))
	limG := reg2.Gauge(mname(core.MetricLimit))
	var minS *RecStream
	if cfg.Wrap == "" && a.NoLoad != nil {
		minS = reg2.Stream("distribution", mname(core.MetricMinRTT))
	}
	if rttS == nil || infS == nil || drpS == nil || limG == nil {
		r.Fail("sample-metric-missing", outer, "limit %s did not register rtt/inflight/dropped/limit metrics under its name", outer)
		return
	}
	for i := 0; i < m; i++ {
		s := g.next(a.Lim.EstimatedLimit())
		if s.Start+s.RTT < 0 {
			s.Start = 0
		}
		if !g.noZero && t.Chance(8, "drop-without-rtt") { // a timeout reported without a clock reading: still one rtt sample
			s.Drop, s.RTT = true, 0
		}
		n1, n2, n3 := rttS.Len(), infS.Len(), drpS.Len()
		nMin := 0
		if minS != nil {
			nMin = minS.Len()
		}
		if p := safeSample(a.Lim, s); p != nil {
			return
		}
		if minS != nil && minS.Len() > nMin {
			// a min_rtt sample emitted while this sample was processed reports the baseline as it is now
			if v, _ := minS.Last(); int64(v) != a.NoLoad() {
				r.Fail("sample-metric-wrong", outer+"/min_rtt", "OnSample%v emitted min_rtt = %v, RTTNoLoad() reports %d right after that sample", s, v, a.NoLoad())
				return
			}
			r.Probe("min_rtt_sample_checked")
		}
		if s.Drop {
			drops++
		}
		v1, _ := rttS.Last()
		v2, _ := infS.Last()
		wantDrop := 0
		if s.Drop {
			wantDrop = 1
		}
		if rttS.Len() != n1+1 || infS.Len() != n2+1 || drpS.Len() != n3+wantDrop || v1 != float64(s.RTT) || v2 != float64(s.InFlight) {
			r.Fail("sample-metric-wrong", outer, "OnSample%v emitted %d rtt (last %v), %d in-flight (last %v), %d dropped samples; expected exactly one rtt=%d, one in-flight=%d and %d dropped", s, rttS.Len()-n1, v1, infS.Len()-n2, v2, drpS.Len()-n3, s.RTT, s.InFlight, wantDrop)
			return
		}
		if s.Drop {
			if v3, _ := drpS.Last(); v3 != 1 {
				r.Fail("sample-metric-wrong", outer+"/dropped-value", "drop counter incremented by %v", v3)
				return
			}
		}
		if v, ok := limG.Value(); !ok || int(v) != a.Lim.EstimatedLimit() {
			r.Fail("limit-gauge-wrong", outer, "limit gauge reports %v, EstimatedLimit() is %d", v, a.Lim.EstimatedLimit())
			return
		}
	}
	if refusals > 0 && drops > 0 {
		r.Nontrivial = true
	}
}

// ---------- (b) real registries ----------

type memWriter struct {
	mu  sync.Mutex
	buf bytes.Buffer
}

func (w *memWriter) Write(p []byte) (int, error) {
	w.mu.Lock()
	defer w.mu.Unlock()
	w.buf.Write(p)
	w.buf.WriteByte('\n')
	return len(p), nil
}
func (w *memWriter) Close() error { return nil }
func (w *memWriter) lines() []string {
	w.mu.Lock()
	defer w.mu.Unlock()
	var out []string
	for _, l := range strings.Split(w.buf.String(), "\n") {
		if l != "" {
			out = append(out, l)
		}
	}
	return out
}

type pollRec struct {
	t    int64
	step int
	id   string
}

type lifeEv struct {
	start     bool
	call, ret int // scheduler steps
	callT     int64
	retT      int64
}

func runC20Registry(r *Run, which string) {
	t := r.T
	freq := []time.Duration{time.Second, 5 * time.Second, 250 * ms}[t.Intn(3, "poll-frequency")]
	prefix := []string{"limiter.", "svc", "x.y."}[t.Intn(3, "prefix")]
	effPrefix := prefix
	if !strings.HasSuffix(effPrefix, ".") {
		effPrefix += "."
	}
	var reg core.MetricRegistry
	var gm gometrics.Registry
	var w *memWriter
	var client *statsd.Client
	switch which {
	case "gometrics":
		gm = gometrics.NewRegistry()
		if t.Chance(35, "backend-names-preexist") {
			// a shared backend registry in which the application (or an earlier wrapper with the same prefix)
			// already registered these names: the samples must land in THOSE metrics
			for _, base := range []string{"rtt", "inflight", "dropped", "lead"} {
				gometrics.GetOrRegisterHistogram(effPrefix+base+"0", gm, gometrics.NewUniformSample(100))
				gometrics.GetOrRegisterTimer(effPrefix+base+"1", gm)
				gometrics.GetOrRegisterCounter(effPrefix+base+"2", gm)
			}
			r.Probe("backend_names_preexist")
		}
		x, err := gmreg.NewGoMetricsMetricRegistry(gm, "", prefix, freq)
		if err != nil {
			r.Fail("harness", "build", "%v", err)
			return
		}
		reg = x
	default:
		w = &memWriter{}
		var err error
		client, err = statsd.NewWithWriter(w, statsd.WithoutTelemetry(), statsd.WithoutClientSideAggregation(), statsd.WithoutOriginDetection())
		if err != nil {
			r.Fail("harness", "statsd", "%v", err)
			return
		}
		x, err := ddreg.NewMetricRegistryWithClient(client, prefix, freq)
		if err != nil {
			r.Fail("harness", "build", "%v", err)
			return
		}
		reg = x
	}
	s := r.NewSched()
	s.MaxVirt = 2 * time.Hour
	s.NoDeadlockFail = true // reported below as registry-call-never-returns
	var polls []pollRec
	var pmu sync.Mutex
	mkSupplier := func(id string, val float64) core.MetricSupplier {
		return func() (float64, bool) {
			pmu.Lock()
			polls = append(polls, pollRec{t: s.Now(), step: s.Step, id: id})
			pmu.Unlock()
			return val, true
		}
	}
	type act struct {
		kind int // 0 start 1 stop 2 sleep 3 register-gauge 4 sample
		d    time.Duration
		id   string
		sk   int // sample kind 0 dist 1 timing 2 count
		v    float64
	}
	var acts []act
	n := 3 + t.Intn(10, "actions")
	gaugeN := 0
	acts = append(acts, act{kind: 3, id: "g0"})
	gaugeN++
	// a gauge whose supplier has no value yet (ok == false on every poll): nothing may reach the backend under its name
	noValueGauge := t.Chance(40, "gauge-without-value")
	for i := 0; i < n; i++ {
		k := t.Pick([]int{3, 3, 5, 1, 3}, "action")
		a := act{kind: k}
		switch k {
		case 2:
			a.d = time.Duration(t.Intn(5, "ticks")) * freq
			switch t.Intn(4, "offset") {
			case 1:
				a.d += freq / 2
			case 2:
				a.d += time.Nanosecond
			case 3:
				if a.d > 0 {
					a.d -= time.Nanosecond
				}
			}
		case 3:
			a.id = fmt.Sprintf("g%d", gaugeN)
			gaugeN++
		case 4:
			a.sk = t.Intn(3, "sample-kind")
			// (the last one: a limit named like the registry's prefix - its metrics are "<prefix><name>.<metric>" all the same)
			a.id = []string{"rtt", "inflight", "dropped", ".lead", effPrefix + "named-like-prefix"}[t.Intn(5, "sample-id")] + fmt.Sprint(a.sk)
			a.v = float64(1 + t.Intn(1000, "sample-v"))
		}
		acts = append(acts, a)
	}
	// always end with a Stop and a quiet period
	acts = append(acts, act{kind: 1}, act{kind: 2, d: 3*freq + freq/2})
	r.Mixf("C20b %s prefix=%q freq=%v actions=%v", which, prefix, freq, acts)
	type ival struct{ from, to int64 }
	var started []ival // [Start call, Stop return]
	cur := int64(-1)
	liveEvents := 0
	var life []*lifeEv
	two := t.Chance(35, "second-controller")
	var acts2 []act
	if two {
		m := 1 + t.Intn(4, "actions2")
		for i := 0; i < m; i++ {
			k := t.Pick([]int{3, 3, 2}, "action2")
			a := act{kind: k}
			if k == 2 {
				a.d = time.Duration(t.Intn(3, "ticks2"))*freq + []time.Duration{0, 0, freq / 2, time.Nanosecond}[t.Intn(4, "offset2")]
			}
			acts2 = append(acts2, a)
		}
		r.Mixf("  second controller: %v", acts2)
	}
	var ctl2 *Task
	type sent struct {
		kind int
		id   string
		v    float64
	}
	var sents []sent
	var sentTags [][2]string // (registration tag, sample tag) per sent sample
	if two {
		ctl2 = s.Go("controller2", func(tk *Task) {
			for _, a := range acts2 {
				switch a.kind {
				case 0:
					tk.Begin("Start", nil)
					ev := &lifeEv{start: true, call: s.Step, callT: s.Now(), ret: 1 << 30}
					life = append(life, ev)
					reg.Start()
					ev.ret, ev.retT = s.Step, s.Now()
					tk.End(nil)
				case 1:
					tk.Begin("Stop", nil)
					ev := &lifeEv{start: false, call: s.Step, callT: s.Now(), ret: 1 << 30}
					life = append(life, ev)
					reg.Stop()
					ev.ret, ev.retT = s.Step, s.Now()
					tk.End(nil)
				case 2:
					tk.Sleep(a.d)
				}
			}
		})
	}
	ctl := s.Go("controller", func(tk *Task) {
		for ai, a := range acts {
			if two && ai == len(acts)-2 {
				// the final Stop + quiet period come after the second controller has finished
				if !tk.WaitFor("controller2-done", func() bool { return ctl2.Done() }) {
					return
				}
			}
			switch a.kind {
			case 0:
				if cur >= 0 {
					liveEvents++
				}
				tk.Begin("Start", nil)
				if cur < 0 {
					cur = s.Now()
				}
				ev := &lifeEv{start: true, call: s.Step, callT: s.Now(), ret: 1 << 30}
				life = append(life, ev)
				reg.Start()
				ev.ret, ev.retT = s.Step, s.Now()
				tk.End(nil)
			case 1:
				if cur >= 0 {
					liveEvents++
				}
				tk.Begin("Stop", nil)
				ev := &lifeEv{start: false, call: s.Step, callT: s.Now(), ret: 1 << 30}
				life = append(life, ev)
				reg.Stop()
				ev.ret, ev.retT = s.Step, s.Now()
				tk.End(nil)
				if cur >= 0 {
					started = append(started, ival{cur, s.Now()})
					cur = -1
				}
			case 2:
				tk.Sleep(a.d)
			case 3:
				tk.Begin("RegisterGauge", a.id)
				reg.RegisterGauge(a.id, mkSupplier(a.id, float64(len(a.id))))
				if noValueGauge && a.id == "g0" {
					reg.RegisterGauge("novalue", func() (float64, bool) {
						pmu.Lock()
						polls = append(polls, pollRec{t: s.Now(), step: s.Step, id: "novalue"})
						pmu.Unlock()
						return 0, false
					})
				}
				tk.End(nil)
			case 4:
				tk.Begin("AddSample", a.id)
				var l core.MetricSampleListener
				// every registration carries a tag of its own (like the partitions of a strategy, which share one ID), every
				// sample a tag that identifies it on the wire
				regTag, sampleTag := fmt.Sprintf("reg:%d", ai), fmt.Sprintf("s:%d", ai)
				switch a.sk {
				case 0:
					l = reg.RegisterDistribution(a.id, regTag)
				case 1:
					l = reg.RegisterTiming(a.id, regTag)
				default:
					l = reg.RegisterCount(a.id, regTag)
				}
				l.AddSample(a.v, sampleTag)
				sents = append(sents, sent{a.sk, strings.TrimPrefix(a.id, "."), a.v})
				sentTags = append(sentTags, [2]string{regTag, sampleTag})
				tk.End(nil)
			}
		}
	})
	s.OnEnd = func() {
		stuck := ctl
		if two && !ctl2.Done() {
			stuck = ctl2
		}
		if !stuck.Done() {
			ctl := stuck
			op := "?"
			if ctl.curOp != nil {
				op = ctl.curOp.Name
			}
			key := which + "/" + op
			if s.Deadlocked || ctl.BlockedInOp("") {
				s.Fail("registry-call-never-returns", key, "%s() did not return: the controller is blocked inside it while the poller needs the registry mutex (deadlock=%v) at t=%s", op, s.Deadlocked, fmtDur(s.Now()))
			}
			return
		}
	}
	s.Run()
	r.VirtNs = s.Now()
	if client != nil {
		client.Flush()
		client.Close()
	}
	if s.Failed() != nil || s.Truncated || !ctl.Done() {
		return
	}
	// polls only inside started intervals
	pmu.Lock()
	ps := append([]pollRec(nil), polls...)
	pmu.Unlock()
	for _, p := range ps {
		// a poll is illegal iff every Start called before it was followed by a Stop that began after that
		// Start had returned and that itself returned before the poll (scheduler step order)
		legal := false
		anyStart := false
		for _, sv := range life {
			if !sv.start || sv.call > p.step {
				continue
			}
			anyStart = true
			cancelled := false
			for _, tv := range life {
				if !tv.start && tv.call > sv.ret && tv.ret < p.step {
					cancelled = true
				}
			}
			if !cancelled {
				legal = true
			}
		}
		if !legal {
			key := which + "/never-started"
			if anyStart {
				key = which + "/after-stop"
			}
			r.Fail("polled-outside-start-stop", key, "gauge %s was polled at t=%s (step %d) although every Start issued before had been followed by a completed Stop (or none was issued); Start/Stop calls [start? call-step ret-step]: %s", p.id, fmtDur(p.t), p.step, lifeString(life))
			return
		}
	}
	if two {
		started = nil // interval-based rate accounting only for a single controller
	}
	// rate per interval and gauge
	for _, iv := range started {
		ticks := (iv.to - iv.from) / int64(freq)
		count := map[string]int{}
		for _, p := range ps {
			if p.t >= iv.from && p.t <= iv.to {
				count[p.id]++
			}
		}
		for id, c := range count {
			if int64(c) > ticks+1 {
				r.Fail("polled-too-often", which, "gauge %s was polled %d times in a started interval of %s (poll frequency %v: at most %d): a second Start must not add a poller", id, c, fmtDur(iv.to-iv.from), freq, ticks+1)
				return
			}
		}
		if ticks >= 2 {
			if c := count["g0"]; int64(c) < ticks/2 {
				r.Fail("not-polled-while-started", which, "gauge g0 was polled %d times in a started interval spanning %d ticks", c, ticks)
				return
			}
		}
	}
	// samples reached the backend
	switch which {
	case "gometrics":
		agg := map[string]float64{}
		cnt := map[string]int{}
		for _, sn := range sents {
			agg[fmt.Sprint(sn.kind)+sn.id] += sn.v
			cnt[fmt.Sprint(sn.kind)+sn.id]++
		}
		for _, sn := range sents {
			m := gm.Get(effPrefix + sn.id)
			k := fmt.Sprint(sn.kind) + sn.id
			switch sn.kind {
			case 0:
				h, ok := m.(gometrics.Histogram)
				if !ok || int(h.Count()) != cnt[k] || float64(h.Sum()) != agg[k] {
					r.Fail("sample-not-forwarded", which+"/distribution", "distribution %q: backend metric %T under %q (count/sum mismatch: expected %d samples summing to %v)", sn.id, m, effPrefix+sn.id, cnt[k], agg[k])
					return
				}
			case 1:
				tm, ok := m.(gometrics.Timer)
				if !ok || int(tm.Count()) != cnt[k] {
					r.Fail("sample-not-forwarded", which+"/timing", "timing %q: backend metric %T under %q, expected a timer with %d updates", sn.id, m, effPrefix+sn.id, cnt[k])
					return
				}
			case 2:
				c, ok := m.(gometrics.Counter)
				if !ok || float64(c.Count()) != agg[k] {
					r.Fail("sample-not-forwarded", which+"/count", "count %q: backend metric %T under %q, expected a counter at %v", sn.id, m, effPrefix+sn.id, agg[k])
					return
				}
			}
		}
		if m := gm.Get(effPrefix + "novalue"); noValueGauge && m != nil {
			r.Fail("gauge-without-value-reported", which, "the supplier of gauge %q never had a value (ok == false on every poll) but the backend holds %T under %q", "novalue", m, effPrefix+"novalue")
			return
		}
		if len(ps) > 0 {
			if g, ok := gm.Get(effPrefix + "g0").(gometrics.GaugeFloat64); !ok || g.Value() != 2 {
				r.Fail("gauge-not-forwarded", which, "gauge g0 was polled but the backend holds %v under %q", gm.Get(effPrefix+"g0"), effPrefix+"g0")
				return
			}
		}
	default:
		lines := strings.Join(w.lines(), "\n") + "\n"
		for _, sn := range sents {
			suffix := []string{"|d", "|ms", "|c"}[sn.kind]
			val := fmt.Sprintf("%v", sn.v)
			want1 := fmt.Sprintf("%s%s:%s%s", effPrefix, sn.id, val, suffix)
			want2 := fmt.Sprintf("%s%s:%s.000000%s", effPrefix, sn.id, val, suffix)
			if !strings.Contains(lines, want1) && !strings.Contains(lines, want2) {
				r.Fail("sample-not-forwarded", which+"/"+suffix[1:], "sample %v of %q (kind %s) not found on the wire as %q; wire:\n%s", sn.v, sn.id, suffix, want1, truncate(lines, 600))
				return
			}
		}
		// a sample sent through the listener of one registration never carries the tags of another registration
		for _, tg := range sentTags {
			for _, ln := range strings.Split(lines, "\n") {
				if !strings.Contains(ln, tg[1]+",") && !strings.HasSuffix(ln, tg[1]) {
					continue
				}
				for _, part := range strings.FieldsFunc(ln, func(c rune) bool { return c == ',' || c == '#' || c == '|' }) {
					if strings.HasPrefix(part, "reg:") && part != tg[0] {
						r.Fail("sample-with-foreign-tags", which, "the sample tagged %q was sent through the listener registered with %q but went out as %q", tg[1], tg[0], ln)
						return
					}
				}
			}
		}
		if noValueGauge && strings.Contains(lines, effPrefix+"novalue:") {
			r.Fail("gauge-without-value-reported", which, "the supplier of gauge %q never had a value (ok == false on every poll) but something was sent under that name:\n%s", "novalue", truncate(lines, 600))
			return
		}
		if len(ps) > 0 && !strings.Contains(lines, effPrefix+"g0:2|g") {
			r.Fail("gauge-not-forwarded", which, "gauge g0 was polled but %q is not on the wire:\n%s", effPrefix+"g0:2|g", truncate(lines, 600))
			return
		}
	}
	if liveEvents > 0 {
		r.Nontrivial = true
		r.Probe("start_or_stop_while_live")
	}
	if len(ps) > 0 {
		r.Probe("gauge_polled")
	}
	_ = limit.ProbeDisabled
}

func truncate(s string, n int) string {
	if len(s) > n {
		return s[:n] + "..."
	}
	return s
}

func lifeString(life []*lifeEv) string {
	out := ""
	for _, e := range life {
		k := "Stop"
		if e.start {
			k = "Start"
		}
		out += fmt.Sprintf("[%s %d..%d] ", k, e.call, e.ret)
	}
	return out
}

// runC20ConcurrentSamples: admission decisions taken concurrently on a simple / precise strategy
// (directly, or through a DefaultLimiter) with a recording listener. The in-flight sample emitted
// by each TryAcquire must be the count that decision was taken on, i.e. the token's InFlightCount().
func runC20ConcurrentSamples(r *Run) {
	t := r.T
	kind := []string{"simple", "precise"}[t.Intn(2, "strategy")]
	L := 1 + t.Intn(4, "limit")
	s := r.NewSched()
	lastByTask := map[int]float64{}
	seenByTask := map[int]int{}
	reg := &RecRegistry{}
	reg.OnSample = func(st *RecStream, v float64, tags []string) {
		if st.ID != core.MetricInFlight {
			return
		}
		if tk := s.lookup(goid()); tk != nil {
			lastByTask[tk.ID] = v
			seenByTask[tk.ID]++
		}
	}
	var strat core.Strategy
	if kind == "simple" {
		strat = strategy.NewSimpleStrategyWithMetricRegistry(L, reg)
	} else {
		strat = strategy.NewPreciseStrategyWithMetricRegistry(L, reg)
	}
	nTasks := 2 + t.Intn(3, "tasks")
	r.Mixf("C20a concurrent samples strategy=%s L=%d tasks=%d", kind, L, nTasks)
	overlap := false
	for i := 0; i < nTasks; i++ {
		rounds := 1 + t.Intn(4, "rounds")
		hold := t.Intn(2, "hold") == 1
		s.Go("caller", func(tk *Task) {
			var held []core.StrategyToken
			for k := 0; k < rounds; k++ {
				tk.Begin("TryAcquire", nil)
				before := seenByTask[tk.ID]
				tok, ok := strat.TryAcquire(bg)
				tk.End(ok)
				if seenByTask[tk.ID] != before+1 {
					s.Fail("inflight-metric-missing", kind+"/concurrent", "TryAcquire (granted=%v) emitted %d in-flight samples, expected exactly one", ok, seenByTask[tk.ID]-before)
					return
				}
				if got := lastByTask[tk.ID]; got != float64(tok.InFlightCount()) {
					s.Fail("inflight-metric-wrong", kind+"/concurrent", "a TryAcquire (granted=%v) decided on an in-flight count of %d (its token's InFlightCount) but sampled %v: the metric was re-read after other callers had moved the counter", ok, tok.InFlightCount(), got)
					return
				}
				if ok {
					if hold {
						held = append(held, tok)
					} else {
						tk.Begin("Release", nil)
						tok.Release()
						tk.End(nil)
					}
				}
			}
			for _, tok := range held {
				tk.Begin("Release", nil)
				tok.Release()
				tk.End(nil)
			}
		})
	}
	s.OnQuiescent = func() {
		in := 0
		for _, tk := range s.tasks {
			if tk.MidOp() {
				in++
			}
		}
		if in >= 2 {
			overlap = true
		}
	}
	s.Run()
	if overlap {
		r.Nontrivial = true
		r.Probe("decisions_overlapped")
	}
}
