package harness

import (
	"fmt"
	"math"
	"math/big"

	"github.com/platinummonkey/go-concurrency-limits/limit"
)

func init() {
	Register(&Prop{
		ID: "C04", Bubble: false, ArmLockProbes: true, Run: runC04, QuickRuns: 5000,
		Rule: "one run = one valid configuration of AIMD / Vegas / Gradient / Gradient2 (bare or wrapped by windowed / traced limits) fed 20..300 samples from a seeded backend model perturbed by fault segments (rtt=0 stalls, huge rtts, decreasing rtts, drop bursts, idle, edge in-flight values, clock jumps); " +
			"oracle after every sample: no panic, min <= EstimatedLimit() <= max(configured max, initial) (AIMD: >= 1 and at most +increment per sample); " +
			"non-trivial = the history contained at least one fault segment and the estimate changed at least once; distinct = distinct choice tapes",
		Real:       []string{"limit.AIMDLimit", "limit.VegasLimit", "limit.GradientLimit", "limit.Gradient2Limit", "limit.WindowedLimit", "limit.TracedLimit", "limit/functions", "measurements.*"},
		Stubs:      []string{"logger (no-op or formatting debug logger)"},
		FaultKinds: []string{"F-latency", "F-drop", "F-idle", "F-clock"},
		Assumptions: []string{"history driver: single goroutine, no schedule dimension; hidden math/rand draws are seeded per run",
			"valid-configuration domain as in DESIGN.md §3 C04 (min<=initial, min<=max, smoothing in (0,1], queue allowance <= max and <= initial, window >= 100 ms, window size >= 10)"},
	})
	Register(&Prop{
		ID: "C06", Bubble: true, ArmLockProbes: true, Run: runC06, QuickRuns: 5000,
		ExpectedProbes: []string{"floor_reached", "concurrent_aimd_checked"},
		Rule: "one run = AIMD / Vegas / Gradient in a state reached by a seeded prefix history (0..300 samples incl. faults), then (i) every drop sample of the whole history is checked for 'never raises' (AIMD: exact back-off value by rational arithmetic for dyadic ratios), (ii) a sustained run of drop samples with constant rtt (0, 1, baseline, multiples, 2^40) must reach the floor within a configuration-derived number of samples; " +
			"non-trivial = the prefix changed the estimate and the sustained run had to move the estimate; distinct = distinct choice tapes",
		Real:        []string{"limit.AIMDLimit", "limit.VegasLimit", "limit.GradientLimit", "limit/functions", "measurements.MinimumMeasurement"},
		Stubs:       []string{"logger"},
		FaultKinds:  []string{"F-drop", "F-latency"},
		Assumptions: []string{"Vegas probe multiplier >= 4 in this check; bounds are deliberately generous (DESIGN.md §3 C06)"},
	})
	Register(&Prop{
		ID: "C07", Bubble: true, ArmLockProbes: true, Run: runC07, QuickRuns: 4000,
		ExpectedProbes: []string{"app_limited_sample_checked", "gradient_probe_during_healthy_run", "concurrent_aimd_checked"},
		Rule: "one run = AIMD / Vegas / Gradient / Gradient2 in a state reached by a seeded prefix history (incl. drops and zero RTTs); (a) every non-drop sample with in-flight below half the estimate (below the estimate for AIMD) must not raise it; (b) a healthy run (no drops, in-flight >= 2 x ceiling, constant rtt not above the baseline) must raise the estimate again and bring it within one of the ceiling within a configuration-derived number of samples (AIMD +increment per sample; Gradient >= queue allowance per non-probe sample); " +
			"non-trivial = at least one app-limited sample was checked and the healthy run started below the ceiling; distinct = distinct choice tapes",
		Real:        []string{"limit.AIMDLimit", "limit.VegasLimit", "limit.GradientLimit", "limit.Gradient2Limit", "measurements.*"},
		Stubs:       []string{"logger"},
		FaultKinds:  []string{"F-idle", "F-drop", "F-latency"},
		Assumptions: []string{"Vegas probe multiplier >= 4, default alpha/beta/threshold functions; queue allowance >= 1"},
	})
}

func algoKey(a *algo, what string) string {
	k := a.Cfg.Name
	if a.Cfg.Wrap != "" {
		k += "/" + a.Cfg.Wrap
	}
	return k + "/" + what
}

// checkBounds verifies the C04 oracle for the current estimate.
func checkBounds(r *Run, a *algo, i int, s Sample, prev int) bool {
	est, p := safeEstimate(a.Lim)
	if p != nil {
		r.Fail("panic", algoKey(a, "EstimatedLimit"), "EstimatedLimit panicked after sample %d %v: %v", i, s, p)
		return false
	}
	inner, p2 := safeEstimate(a.Inner)
	if p2 == nil && inner != est {
		r.Fail("wrapper-estimate-differs", algoKey(a, ""), "wrapper reports %d but its delegate reports %d", est, inner)
		return false
	}
	if est < a.Lo {
		what := "below-min"
		if est < -1<<40 {
			what = "nan-or-overflow"
		}
		r.Fail("estimate-out-of-bounds", algoKey(a, what), "after sample %d %v the estimate is %d, below the floor %d [%s]", i, s, est, a.Lo, a.Cfg)
		return false
	}
	if est > a.Hi {
		r.Fail("estimate-out-of-bounds", algoKey(a, "above-max"), "after sample %d %v the estimate is %d, above the ceiling %d [%s]", i, s, est, a.Hi, a.Cfg)
		return false
	}
	if a.Cfg.Name == "aimd" && est > prev+a.Cfg.IncreaseBy {
		r.Fail("estimate-out-of-bounds", algoKey(a, "aimd-jump"), "AIMD estimate jumped from %d to %d (increment %d)", prev, est, a.Cfg.IncreaseBy)
		return false
	}
	return true
}

func runC04(r *Run) {
	t := r.T
	cfg := drawAlgoCfg(t, []string{"aimd", "vegas", "gradient", "gradient2"}, []string{"", "", "windowed", "traced", "traced+windowed", "windowed+traced"})
	if cfg.Name == "vegas" && cfg.Ctor == "" && t.Chance(20, "vegas-own-steps") {
		cfg.VegasSteps = 1 + t.Intn(3, "vegas-steps") // the caller supplies its own increase and / or decrease step, the rest stays default
	}
	a, err := buildAlgo(cfg, t.Chance(30, "with-metric-registry")) // a recording registry: the metric plumbing runs inside OnSample, under its lock
	if err != nil {
		r.Fail("harness", "build", "%v [%s]", err, cfg)
		return
	}
	g := newEnvGen(r)
	n := 20 + t.Intn(scale(281, 1500), "samples")
	r.Mixf("C04 %s samples=%d base=%d cap=%d", cfg, n, g.base, g.cap)
	prev, _ := safeEstimate(a.Lim)
	if !checkBounds(r, a, -1, Sample{}, prev) {
		return
	}
	changed := false
	for i := 0; i < n; i++ {
		s := g.next(prev)
		if cfg.Wrap != "" && (s.Start+s.RTT < 0) {
			s.Start = 0
		}
		if r.Verbose {
			r.Notef("sample %d %v est_before=%d", i, s, prev)
		}
		if p := safeSample(a.Lim, s); p != nil {
			r.Fail("panic", algoKey(a, "OnSample"), "OnSample panicked on sample %d %v (estimate before: %d): %v [%s]", i, s, prev, p, cfg)
			return
		}
		if !checkBounds(r, a, i, s, prev) {
			return
		}
		est, _ := safeEstimate(a.Lim)
		if est != prev {
			changed = true
		}
		prev = est
	}
	if changed && len(r.Faults) > 0 {
		r.Nontrivial = true
	}
}

// ---------------- C06 ----------------

func aimdExpected(old int, c algoCfg) (int, bool) {
	// exact for dyadic ratios k/64: floor(old*k/64)
	k := c.Backoff * 64
	if k != math.Trunc(k) {
		return 0, false
	}
	v := new(big.Int).Mul(big.NewInt(int64(old)), big.NewInt(int64(k)))
	v.Div(v, big.NewInt(64))
	fl := int(v.Int64())
	m := old - 1
	if fl < m {
		m = fl
	}
	if m < 1 {
		m = 1
	}
	return m, true
}

func runC06(r *Run) {
	t := r.T
	if t.Chance(6, "concurrent-aimd") {
		runConcurrentAIMD(r, 50, "C06")
		return
	}
	if t.Chance(6, "concurrent-drops") {
		runConcurrentMonotone(r, true, "C06")
		return
	}
	cfg := drawAlgoCfg(t, []string{"aimd", "vegas", "gradient"}, nil)
	if cfg.Name == "vegas" && cfg.ProbeMult < 4 {
		cfg.ProbeMult = 4
	}
	a, err := buildAlgo(cfg, false)
	if err != nil {
		r.Fail("harness", "build", "%v", err)
		return
	}
	g := newEnvGen(r)
	g.maxRTT = 1 << 53
	nPrefix := t.Intn(scale(301, 1200), "prefix")
	r.Mixf("C06 %s prefix=%d base=%d cap=%d", cfg, nPrefix, g.base, g.cap)
	prev := a.Lim.EstimatedLimit()
	start := prev
	feed := func(i int, s Sample, phase string) bool {
		before := prev
		if before < a.Lo {
			r.Fail("poisoned-state", algoKey(a, "nan"), "the history left the estimate at %d (below the floor %d: NaN/overflow) before %s sample %d [%s]", before, a.Lo, phase, i, cfg)
			return false
		}
		if p := safeSample(a.Lim, s); p != nil {
			r.Fail("panic", algoKey(a, "OnSample"), "OnSample panicked (%s sample %d %v): %v", phase, i, s, p)
			return false
		}
		est := a.Lim.EstimatedLimit()
		if r.Verbose {
			r.Notef("%s %d %v: %d -> %d", phase, i, s, before, est)
		}
		if s.Drop {
			if est > before {
				r.Fail("drop-raised-limit", algoKey(a, ""), "a drop sample %v raised the estimate from %d to %d [%s]", s, before, est, cfg)
				return false
			}
			if cfg.Name == "aimd" {
				if want, exact := aimdExpected(before, cfg); exact {
					if est != want {
						r.Fail("aimd-backoff-wrong", "aimd", "drop at limit %d with ratio %g: expected max(1, min(limit-1, floor(limit*ratio))) = %d, got %d", before, cfg.Backoff, want, est)
						return false
					}
				} else {
					lo := int(math.Floor(float64(before)*cfg.Backoff)) - 1
					if est < 1 || est > maxInt(1, before-1) || est < minInt(lo, before-1) {
						r.Fail("aimd-backoff-wrong", "aimd", "drop at limit %d with ratio %g gave %d", before, cfg.Backoff, est)
						return false
					}
				}
			}
		}
		prev = est
		return true
	}
	negPrefix := t.Chance(10, "negative-rtt-in-prefix") // a clock that stepped back during the preceding history
	for i := 0; i < nPrefix; i++ {
		sm := g.next(prev)
		if negPrefix && t.Chance(3, "negative-prefix-sample") {
			sm.RTT = -int64(1 + t.Intn(5000000, "negative-rtt"))
			r.Fault("F-clock:negative-rtt")
			r.Probe("prefix_with_negative_rtt")
		}
		if !feed(i, sm, "prefix") {
			return
		}
	}
	afterPrefix := prev
	if prev < a.Lo {
		r.Fail("poisoned-state", algoKey(a, "nan"), "the prefix history left the estimate at %d (below the floor %d: NaN/overflow) [%s]", prev, a.Lo, cfg)
		return
	}
	// sustained drops with constant rtt
	base := int64(0)
	if a.NoLoad != nil {
		base = a.NoLoad()
	}
	rtt := []int64{0, 1, base, base * 3, 1 << 40, g.base}[t.Intn(6, "drop-rtt")]
	if rtt < 0 {
		rtt = 0
	}
	if t.Chance(6, "negative-drop-rtt") {
		rtt = -int64(1 + t.Intn(5000000, "negative-rtt")) // a clock that stepped back while the request failed: "any rtt"
		r.Probe("sustained_drops_with_negative_rtt")
	}
	inflight := g.pickInflight(prev)
	hi := maxInt(a.Hi, prev)
	var floor, bound int
	switch cfg.Name {
	case "aimd":
		floor = 1
		bound = prev + 2
		if cfg.Backoff == 1.0 {
			bound = prev + 2 // limit-1 per drop
		}
		hi = prev
	case "vegas":
		floor = 1
		bound = int(2*float64(hi)/cfg.Smoothing) + 10
	case "gradient":
		q := a.qfunc
		floor = maxInt(cfg.Min, q(cfg.Min))
		bound = int(4*math.Log(float64(hi)+1)/cfg.Smoothing) + 10
	}
	r.Mixf("sustained drops rtt=%d inflight=%d from=%d floor<=%d bound=%d", rtt, inflight, prev, floor, bound)
	reached := -1
	for i := 0; i < bound; i++ {
		if cfg.Name == "gradient" {
			// the floor depends on the current estimate through the queue function; probes also reset to it
			floor = maxInt(cfg.Min, a.qfunc(prev))
		}
		if prev <= floor {
			reached = i
			break
		}
		if !feed(i, Sample{Start: 0, RTT: rtt, InFlight: inflight, Drop: true}, "drops") {
			return
		}
	}
	if reached < 0 && prev <= floor {
		reached = bound
	}
	if reached < 0 {
		r.Fail("drops-do-not-reach-floor", algoKey(a, fmt.Sprintf("rtt%s", rttClass(rtt))), "after %d consecutive drop samples (rtt=%d, in-flight=%d) the estimate is still %d (was %d, floor %d) [%s]", bound, rtt, inflight, prev, afterPrefix, floor, cfg)
		return
	}
	if afterPrefix != start && reached > 0 {
		r.Nontrivial = true
	}
	r.Probe("floor_reached")
}

func rttClass(rtt int64) string {
	if rtt == 0 {
		return "=0"
	}
	return ">0"
}

// ---------------- C07 ----------------

func runC07(r *Run) {
	t := r.T
	if t.Chance(8, "concurrent-aimd") {
		runConcurrentAIMD(r, 10, "C07")
		return
	}
	if t.Chance(8, "concurrent-healthy") {
		runConcurrentMonotone(r, false, "C07")
		return
	}
	cfg := drawAlgoCfg(t, []string{"aimd", "vegas", "gradient", "gradient2"}, nil)
	if cfg.Name == "vegas" && cfg.ProbeMult < 4 {
		cfg.ProbeMult = 4
	}
	if cfg.Name == "gradient" && cfg.ProbeInterval == 1 {
		cfg.ProbeInterval = 2 // interval 1 = "probe on every sample": growth between probes is vacuous, outside this check's domain
	}
	a, err := buildAlgo(cfg, false)
	if err != nil {
		r.Fail("harness", "build", "%v", err)
		return
	}
	g := newEnvGen(r)
	g.maxRTT = 1 << 53
	nPrefix := t.Intn(scale(301, 1200), "prefix")
	r.Mixf("C07 %s prefix=%d base=%d cap=%d", cfg, nPrefix, g.base, g.cap)
	prev := a.Lim.EstimatedLimit()
	gated := 0
	feed := func(i int, s Sample, phase string) bool {
		before := prev
		if before < a.Lo {
			r.Fail("poisoned-state", algoKey(a, "nan"), "the history left the estimate at %d (below the floor %d: NaN/overflow), a state that can never recover, before %s sample %d [%s]", before, a.Lo, phase, i, cfg)
			return false
		}
		if p := safeSample(a.Lim, s); p != nil {
			r.Fail("panic", algoKey(a, "OnSample"), "OnSample panicked (%s sample %d %v): %v", phase, i, s, p)
			return false
		}
		est := a.Lim.EstimatedLimit()
		if r.Verbose {
			r.Notef("%s %d %v: %d -> %d", phase, i, s, before, est)
		}
		if !s.Drop {
			appLimited := 2*s.InFlight < before
			if cfg.Name == "aimd" {
				appLimited = s.InFlight < before
			}
			if appLimited {
				gated++
				if est > before {
					r.Fail("idle-sample-raised-limit", algoKey(a, ""), "app-limited sample %v (in-flight %d, estimate %d) raised the estimate to %d [%s]", s, s.InFlight, before, est, cfg)
					return false
				}
			}
		}
		prev = est
		return true
	}
	for i := 0; i < nPrefix; i++ {
		if !feed(i, g.next(prev), "prefix") {
			return
		}
	}
	if prev < a.Lo || prev > maxInt(a.Hi, prev) || prev < -1<<40 {
		// state already broken (C04's finding): the recovery clause below will show it as "stuck"
	}
	// healthy run
	var rtt int64
	base := int64(0)
	if a.NoLoad != nil {
		base = a.NoLoad()
	}
	switch {
	case cfg.Name == "gradient2" || cfg.Name == "aimd":
		rtt = []int64{g.base, 1, 1e6, 1 << 40}[t.Intn(4, "healthy-rtt")]
	case base > 0:
		rtt = base
		if t.Chance(30, "below-baseline") {
			rtt = base/2 + 1
		}
	default:
		rtt = []int64{g.base, 1, 1e6}[t.Intn(3, "healthy-rtt")]
	}
	if rtt < 1 {
		rtt = 1
	}
	ceiling := a.Hi
	if cfg.Name != "aimd" {
		ceiling = cfg.Max // recovery is towards the configured maximum
	}
	if prev < a.Lo {
		r.Fail("poisoned-state", algoKey(a, "nan"), "the prefix history left the estimate at %d (below the floor %d: NaN/overflow); such a state can never recover [%s]", prev, a.Lo, cfg)
		return
	}
	inflight := 2*maxInt(ceiling, prev) + 2
	if cfg.Name == "aimd" {
		inflight = 1 << 30
	}
	startEst := prev
	var bound int
	s := cfg.Smoothing
	switch cfg.Name {
	case "aimd":
		bound = 30
	case "vegas":
		mx := float64(ceiling)
		bound = int(4*(mx/(6*s)+math.Log(mx+6)/s)) + 50
	case "gradient":
		qmin := 1
		if cfg.QFix > 0 {
			qmin = cfg.QFix
		} else {
			qmin = 4
		}
		bound = (ceiling-a.Lo)/qmin + 2
		if cfg.ProbeInterval != -1 {
			// probes reset the estimate to its floor: only the per-sample growth rule is claimed, plus reaching the ceiling when the probe interval allows it
			bound = 4*bound + 4*cfg.ProbeInterval + 50
		}
	case "gradient2":
		q := float64(cfg.QFix)
		mx := float64(ceiling)
		w := float64(cfg.LongWindow)
		bound = int(2*(10+(w+1)/2*math.Log(2*mx/q+1)+2*mx/(s*q))) + 50
	}
	r.Mixf("healthy run rtt=%d inflight=%d from=%d ceiling=%d bound=%d baseline=%d", rtt, inflight, prev, ceiling, bound, base)
	reached := prev >= ceiling-1
	raised := false
	probes := 0
	for i := 0; i < bound && !reached; i++ {
		before := prev
		sm := Sample{RTT: rtt, InFlight: inflight}
		if cfg.Name != "aimd" {
			sm.InFlight = 2*maxInt(ceiling, before) + 2
		}
		if !feed(i, sm, "healthy") {
			return
		}
		if prev > before {
			raised = true
		}
		switch cfg.Name {
		case "aimd":
			if prev != before+cfg.IncreaseBy {
				r.Fail("healthy-sample-did-not-grow", "aimd", "saturated drop-free sample at limit %d: expected %d, got %d", before, before+cfg.IncreaseBy, prev)
				return
			}
			if i >= 3 {
				reached = true // AIMD has no ceiling: +increment on every sample is the claim
			}
		case "gradient":
			qb := a.qfunc(before)
			probe := a.NoLoad() == 0
			if probe {
				probes++
				// probe: estimate = floor, baseline unset
				if want := maxInt(cfg.Min, qb); prev != want {
					r.Fail("probe-wrong-floor", "gradient", "probe sample at estimate %d left the estimate at %d, expected max(min, queue allowance) = %d", before, prev, want)
					return
				}
			} else {
				want := minInt(cfg.Max, before+qb)
				if prev < want && prev < ceiling-1 {
					r.Fail("healthy-sample-did-not-grow", "gradient", "healthy saturated sample (rtt %d <= baseline) at estimate %d grew only to %d, expected at least min(max, old + queue allowance %d) = %d [%s]", rtt, before, prev, qb, want, cfg)
					return
				}
			}
		}
		if prev >= ceiling-1 {
			reached = true
		}
	}
	if !reached {
		if cfg.Name == "gradient" && cfg.ProbeInterval != -1 && cfg.ProbeInterval <= 2*((ceiling-a.Lo)/maxInt(1, cfg.QFix)+2) {
			// probes recur faster than the ceiling can be reached: only "raises again" is claimed
			if !raised && startEst < ceiling-1 {
				r.Fail("stuck-below-ceiling", algoKey(a, "never-raised"), "a healthy saturated run of %d samples never raised the estimate (%d) [%s]", bound, prev, cfg)
			}
		} else {
			key := "stuck"
			if prev < -1<<40 {
				key = "nan"
			}
			r.Fail("stuck-below-ceiling", algoKey(a, key), "after %d healthy saturated samples (rtt=%d, no drops) the estimate is %d (started at %d), not within one of the ceiling %d [%s]", bound, rtt, prev, startEst, ceiling, cfg)
		}
		return
	}
	if gated > 0 && startEst < ceiling-1 {
		r.Nontrivial = true
	}
	if gated > 0 {
		r.Probe("app_limited_sample_checked")
	}
	if probes > 0 {
		r.Probe("gradient_probe_during_healthy_run")
	}
}

// runC07ConcurrentAIMD: the demand gate must also hold when samples are reported from several
// goroutines: whatever the interleaving, the final estimate must be one that some sequential
// order of the (atomic) samples produces. AIMD's rule is exact, so all orders are enumerated.
func runConcurrentAIMD(r *Run, dropPct int, who string) {
	t := r.T
	initial := 2 + t.Intn(12, "initial")
	inc := 1 + t.Intn(3, "inc")
	lim := limit.NewAIMDLimit("aimd", initial, 0.5, inc, nil)
	nTasks := 2 + t.Intn(2, "tasks")
	type smp struct {
		f    int
		drop bool
	}
	scripts := make([][]smp, nTasks)
	total := 0
	for i := range scripts {
		n := 1 + t.Intn(2, "samples")
		for k := 0; k < n; k++ {
			f := []int{initial, initial - 1, initial + inc, initial / 2, initial + 2*inc}[t.Intn(5, "inflight")]
			scripts[i] = append(scripts[i], smp{f: f, drop: t.Chance(dropPct, "drop")})
			total++
		}
	}
	r.Mixf("%s concurrent AIMD initial=%d inc=%d scripts=%v", who, initial, inc, scripts)
	s := r.NewSched()
	for i := range scripts {
		sc := scripts[i]
		s.Go("sampler", func(tk *Task) {
			for _, x := range sc {
				tk.Begin("OnSample", x)
				lim.OnSample(0, 1000, x.f, x.drop)
				tk.End(nil)
			}
		})
	}
	s.Run()
	if s.Failed() != nil || s.Truncated {
		return
	}
	final := lim.EstimatedLimit()
	// all interleavings of the scripts (per-task order kept)
	reach := map[int]bool{}
	pos := make([]int, nTasks)
	var rec func(cur int, left int)
	rec = func(cur int, left int) {
		if left == 0 {
			reach[cur] = true
			return
		}
		for i := range scripts {
			if pos[i] < len(scripts[i]) {
				x := scripts[i][pos[i]]
				nx := cur
				if x.drop {
					nx = maxInt(1, minInt(cur-1, cur/2))
				} else if x.f >= cur {
					nx = cur + inc
				}
				pos[i]++
				rec(nx, left-1)
				pos[i]--
			}
		}
	}
	rec(initial, total)
	r.Probe("concurrent_aimd_checked")
	if len(reach) > 1 {
		r.Nontrivial = true
	}
	if !reach[final] {
		r.Fail("concurrent-samples-not-serializable", "aimd", "samples %v reported concurrently left the estimate at %d (initial %d, increment %d); no sequential order of these samples gives that value (possible: %v) - an update was lost or applied to a stale estimate (a drop must lower, an unsaturated sample must not raise the estimate in force when it is applied)", scripts, final, initial, inc, reach)
	}
}

// runConcurrentMonotone: samples of ONE kind reported from several goroutines to one delay-based limit.
// drops == true (C06): every sample is a drop, so the estimate, observed whenever no sample is in progress and at
// the end, never rises (a drop applied late, to a stale snapshot, must not undo what other drops did).
// drops == false (C07): every sample is healthy and saturated at the no-load RTT, so the estimate never falls
// (growth computed from a stale snapshot must not overwrite concurrent growth).
// Probing is disabled for Gradient (a probe legitimately moves the estimate to the queue allowance); Vegas probes
// only touch the baseline. A first sample sets the baseline sequentially.
func runConcurrentMonotone(r *Run, drops bool, who string) {
	t := r.T
	var names []string
	if drops {
		names = []string{"vegas", "gradient", "gradient"}
	} else {
		names = []string{"vegas", "gradient", "gradient", "gradient2"}
	}
	cfg := algoCfg{Name: names[t.Intn(len(names), "algo")]}
	cfg.Initial = []int{200, 60, 20, 120}[t.Intn(4, "initial")]
	cfg.Min = 1 + t.Intn(4, "min")
	cfg.Max = 1000
	cfg.Smoothing = []float64{1.0, 0.5, 0.2}[t.Intn(3, "smoothing")]
	cfg.Tolerance = 2.0
	cfg.ProbeInterval = -1
	cfg.ProbeMult = 30
	cfg.LongWindow = 10
	if cfg.Name == "gradient2" {
		cfg.QFix = 4
	}
	if !drops {
		cfg.Initial = []int{4, 10, 20}[t.Intn(3, "initial-low")]
		if cfg.Min > cfg.Initial {
			cfg.Min = cfg.Initial
		}
	}
	a, err := buildAlgo(cfg, false)
	if err != nil {
		r.Fail("harness", "build", "%v", err)
		return
	}
	const rtt = 10 * 1000 * 1000
	a.Lim.OnSample(0, rtt, 1, false) // baseline (app-limited: the estimate does not move)
	nTasks := 2 + t.Intn(3, "tasks")
	per := 1 + t.Intn(4, "samples-per-task")
	r.Mixf("%s concurrent %s samples on %s: tasks=%d each=%d", who, map[bool]string{true: "drop", false: "healthy"}[drops], cfg, nTasks, per)
	s := r.NewSched()
	var tasks []*Task
	for i := 0; i < nTasks; i++ {
		tasks = append(tasks, s.Go("sampler", func(tk *Task) {
			for k := 0; k < per; k++ {
				tk.Begin("OnSample", nil)
				if drops {
					a.Lim.OnSample(0, rtt, 1000, true)
				} else {
					a.Lim.OnSample(0, rtt, 4000, false)
				}
				tk.End(nil)
			}
		}))
	}
	last, _ := safeEstimate(a.Lim)
	start := last
	observe := func(where string) {
		var cur int
		if !RootCall(func() { cur = a.Lim.EstimatedLimit() }) {
			return
		}
		if drops && cur > last {
			s.Fail("drop-raised-limit", cfg.Name+"/concurrent", "%s: only drops are being reported (from %d goroutines) and the estimate rose from %d to %d [%s]", where, nTasks, last, cur, cfg)
		} else if !drops && cur < last {
			s.Fail("healthy-sample-lowered-limit", cfg.Name+"/concurrent", "%s: only healthy saturated samples at the no-load RTT are being reported (from %d goroutines) and the estimate fell from %d to %d [%s]", where, nTasks, last, cur, cfg)
		}
		last = cur
	}
	s.OnQuiescent = func() { observe("step " + itoa(s.Step)) }
	s.Run()
	if s.Failed() != nil || s.Truncated {
		return
	}
	observe("after all samples returned")
	if last != start {
		r.Nontrivial = true
		r.Probe("concurrent_monotone_checked")
	}
}
