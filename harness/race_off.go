//go:build !race

package harness

const RaceBuild = false

func raceOff() {}
func raceOn()  {}
