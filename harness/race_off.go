//go:build !race

package harness

const RaceBuild = false

func raceOff() {}
func raceOn()  {}

func raceErrors() int { return 0 }

func lastRaceReport() (string, string) { return "", "" }
