package harness

import (
	"context"
	"fmt"
	"runtime"
	"strings"
	"sync"
	"sync/atomic"
	"testing/synctest"
	"time"

	"github.com/platinummonkey/go-concurrency-limits/verifsim"
)

// Hook kinds beyond verifsim.KindYield / KindLockWait (harness-side parks).
const (
	kYield    = verifsim.KindYield
	kLockWait = verifsim.KindLockWait
	kStart    = 10 // task created, not yet started
	kOpStart  = 11 // between operations (idle), about to start an operation
	kGuard    = 12 // waiting for a harness-level condition
	kWoke     = 13 // after a harness-level sleep
)

type taskState int32

const (
	stRunning taskState = iota // running, or durably blocked inside the code under test
	stParked                   // parked at a scheduling point, waiting for the scheduler
	stDone
)

// OpRec is one operation of the recorded history. Call/Ret are scheduler
// step numbers (global, total order); the interval is only ever widened.
type OpRec struct {
	Task  int
	Name  string
	In    any
	Out   any
	Call  int
	Ret   int
	CallT int64 // virtual ns at release into the operation
	RetT  int64 // virtual ns when the operation returned (task side, exact)

	// Solo: from its call until it returned or first blocked durably, no other
	// task executed a step and no other task was parked inside an operation
	// when it started — its outcome must then match the sequential model.
	Solo    bool
	settled bool
	Blocked bool // was durably blocked at some quiescent point
	Pre     any  // model snapshot taken by OnCall at call time
}

type Task struct {
	ID      int
	Name    string
	s       *Sched
	gid     uint64
	wake    chan struct{}
	state   taskState
	kind    int
	site    string
	guard   func() bool
	lockEp  uint64
	adopted bool
	daemon  bool

	nextOp  *OpRec
	curOp   *OpRec
	retPend *OpRec

	prio int // PCT priority

	Ctx    context.Context
	Cancel context.CancelFunc

	aborted  bool
	Lagged   bool  // was runnable while the scheduler let virtual time pass (F-lag)
	sleeping int32 // inside a harness-level sleep (virtual time)
	Panic    any
}

// Sched is the deterministic scheduler of one simulated run.
type Sched struct {
	T       *Tape
	rootGid uint64
	mu      sync.Mutex
	tasks   []*Task
	sig     chan struct{}

	Step      int
	progress  uint64
	cur       *Task
	Ops       []*OpRec
	hash      uint64
	trace     []string
	Trace     bool
	MaxSteps  int
	MaxVirt   time.Duration
	IdleLimit time.Duration
	start     time.Time

	strategy  int
	stickPct  int
	pctPoints []int

	Truncated  bool
	Deadlocked bool
	// ArmOnly: no scheduling at all, only the lock probes are armed (Prop.ArmLockProbes)
	ArmOnly bool
	// ArmBlockedAt: first lock site at which the armed driver would have blocked (also when the panic raised there
	// was swallowed, e.g. by fmt while formatting a value whose String method takes the lock)
	ArmBlockedAt string
	// NoDeadlockFail: the property's own oracle reports lock deadlocks (with a better message)
	NoDeadlockFail bool
	fail           *Violation
	draining       bool

	// OnQuiescent is called after every step (everything parked or blocked).
	OnQuiescent func()
	// OnStable is called when no task is enabled, before virtual time advances.
	OnStable func()
	// OnEnd is called when the schedule is over (all done / nothing can happen / cap), before draining.
	OnEnd func()
	// OnDrain is called once when the run is over (cancel contexts etc.).
	OnDrain func()
	// AfterDrain is called after draining (every task finished unless Leftover() > 0).
	AfterDrain func()
	// OnCall is called by the scheduler when it releases a task into an operation.
	OnCall func(t *Task, op *OpRec)

	// LagPct > 0 enables fault F-lag: with this probability per decision the
	// scheduler lets virtual time advance to the next harness-level wake-up
	// although tasks are runnable (a slow thread parked in the middle of an
	// operation). Only for stacks without select-based blocking (no timer can
	// become ready together with another case), or — thanks to lagSafe — for oracles
	// that do not depend on exact instants (C02).
	LagPct int
	Lags   int
	// LagStrict: for oracles on exact instants (C13). Lag never delays goroutines spawned by the code
	// under test, and every task that was runnable while time was allowed to pass is marked Lagged
	// (its own lateness is the scheduler's doing and must not be judged).
	LagStrict bool

	Switches  int
	LockWaits int
	TimeJumps int
	Adopted   int
	// multi-case selects whose cases were tried in a drawn, non-source order
	SelectReorders int
	// select cases found ready on entry (reach probe), by site
	SelectHits  map[string]int
	StableCount int
}

type Violation struct {
	Class string `json:"class"` // violation class, stable under shrinking
	Key   string `json:"key"`   // signature detail used to match known findings
	Msg   string `json:"msg"`
}

//go:norace
func (v *Violation) Sig() string { return v.Class + "|" + v.Key }

var (
	curSched  atomic.Pointer[Sched]
	heartbeat atomic.Int64
)

//go:norace
func init() {
	verifsim.Hook = globalHook
	verifsim.SelectHook = globalSelectHook
	verifsim.OnWouldBlock = func(site string) {
		// only the armed single-driver mode: there a busy lock can only be one the driver holds itself (with a real
		// scheduler the root's probes hit locks of parked tasks all the time: RootCall handles those)
		if s := curSched.Load(); s != nil && s.ArmOnly && s.ArmBlockedAt == "" {
			s.ArmBlockedAt = site
		}
	}
	verifsim.SelectHitHook = globalSelectHit
	verifsim.RootProbe = func() int {
		s := curSched.Load()
		if s == nil {
			return 2
		}
		if s.ArmOnly {
			return 1 // history driver: one goroutine drives the library, every caller is "the root"
		}
		if goid() == s.rootGid {
			return 1
		}
		return 0
	}
}

// globalSelectHook decides the order in which the cases of a multi-case select
// are tried (the Go runtime's own choice among ready cases is random and not
// seedable). The caller is the only running goroutine of the bubble: a task
// right after its #select scheduling point, or the root.
//
//go:norace
func globalSelectHook(site string, n int) int {
	s := curSched.Load()
	if s == nil || s.ArmOnly {
		return -1
	}
	k := s.T.Intn(verifsim.SelectPerms(n), "select-order") // tape.go is go:norace as well
	if k != 0 {
		s.SelectReorders++
		s.Note("select order %d at %s", k, site)
	}
	return k
}

//go:norace
func globalSelectHit(site string, i int) {
	s := curSched.Load()
	if s == nil || RaceBuild || s.ArmOnly {
		// race build (C17): map operations are reported by the race detector even from go:norace code (the
		// runtime's map functions carry their own instrumentation), and this probe is not needed there
		return
	}
	if s.SelectHits == nil {
		s.SelectHits = map[string]int{}
	}
	s.SelectHits[site+"/case"+itoa(i)]++
}

//go:norace
func globalHook(kind int, site string) {
	s := curSched.Load()
	if s == nil || s.ArmOnly {
		return
	}
	raceOff()
	s.hook(kind, site)
	raceOn()
}

//go:norace
func goid() uint64 {
	var buf [40]byte
	n := runtime.Stack(buf[:], false)
	// "goroutine 123 ["
	var id uint64
	for i := 10; i < n; i++ {
		c := buf[i]
		if c < '0' || c > '9' {
			break
		}
		id = id*10 + uint64(c-'0')
	}
	return id
}

// NewSched must be called on the bubble's root goroutine.
//
//go:norace
func NewSched(t *Tape) *Sched {
	s := &Sched{
		T:         t,
		rootGid:   goid(),
		sig:       make(chan struct{}, 1),
		MaxSteps:  scale(4000, 12000),
		MaxVirt:   200 * time.Hour,
		IdleLimit: 3 * time.Hour,
		start:     time.Now(),
		hash:      14695981039346656037,
	}
	return s
}

// Activate installs the scheduler; hooks reached before this are no-ops.
//
//go:norace
func (s *Sched) Activate() { curSched.Store(s) }

//go:norace
func (s *Sched) Deactivate() {
	curSched.Store(nil)
}

//go:norace
func (s *Sched) Now() int64 { return int64(time.Since(s.start)) }

//go:norace
func (s *Sched) mix(v uint64) {
	s.hash ^= v
	s.hash *= 1099511628211
}

//go:norace
func (s *Sched) Hash() uint64 { return s.hash }

// Note adds a fact to the run's event hash (and trace).
//
//go:norace
func (s *Sched) Note(format string, a ...any) {
	msg := fmt.Sprintf(format, a...)
	s.mix(HashString(msg))
	if s.Trace {
		s.trace = append(s.trace, fmt.Sprintf("[%d t=%s] %s", s.Step, time.Duration(s.Now()), msg))
	}
}

//go:norace
func (s *Sched) TraceLines() []string { return s.trace }

//go:norace
func (s *Sched) lookup(gid uint64) *Task {
	s.mu.Lock()
	defer s.mu.Unlock()
	for _, t := range s.tasks {
		if t.gid == gid {
			return t
		}
	}
	return nil
}

//go:norace
func (s *Sched) hook(kind int, site string) {
	gid := goid()
	if gid == s.rootGid {
		return
	}
	t := s.lookup(gid)
	if t == nil {
		if outsideBubble(gid) {
			// the runtime's finalizer / cleanup goroutine running code of the tree under test: it is not part of the
			// bubble, cannot be parked on the bubble's channels and is not a schedule choice of this simulator
			return
		}
		// a goroutine started by the code under test (e.g. a registry poller)
		s.mu.Lock()
		t = &Task{ID: len(s.tasks), Name: "spawned", s: s, gid: gid, wake: make(chan struct{}), adopted: true, daemon: true}
		s.tasks = append(s.tasks, t)
		s.Adopted++
		s.mu.Unlock()
	}
	t.park(kind, site, nil)
}

//go:norace
func (t *Task) park(kind int, site string, guard func() bool) {
	s := t.s
	if s.draining && kind == kGuard {
		return
	}
	t.kind, t.site, t.guard = kind, site, guard
	if kind == kLockWait {
		t.lockEp = atomic.LoadUint64(&s.progress)
	}
	atomic.StoreInt32((*int32)(&t.state), int32(stParked))
	select {
	case s.sig <- struct{}{}:
	default:
	}
	<-t.wake
}

// Go creates a task; its goroutine parks immediately and starts only when the
// scheduler selects it. Must be called from the root goroutine.
//
//go:norace
func (s *Sched) Go(name string, body func(t *Task)) *Task {
	ctx, cancel := context.WithCancel(context.Background())
	t := &Task{ID: len(s.tasks), Name: name, s: s, wake: make(chan struct{}), Ctx: ctx, Cancel: cancel}
	s.mu.Lock()
	s.tasks = append(s.tasks, t)
	s.mu.Unlock()
	ready := make(chan struct{})
	go t.main(body, ready)
	<-ready
	synctest.Wait()
	s.drainSig()
	return t
}

//go:norace
func (t *Task) main(body func(t *Task), ready chan struct{}) {
	raceOff()
	t.gid = goid()
	close(ready)
	defer t.finish()
	t.park(kStart, "start", nil)
	raceOn()
	body(t)
	raceOff()
}

type abortTask struct{}

//go:norace
func (t *Task) finish() {
	raceOff()
	if r := recover(); r != nil {
		if _, ok := r.(abortTask); !ok {
			buf := make([]byte, 2048)
			n := runtime.Stack(buf, false)
			t.Panic = fmt.Sprintf("%v\n%s", r, buf[:n])
		}
	}
	if t.curOp != nil {
		t.retPend, t.curOp = t.curOp, nil
	}
	atomic.StoreInt32((*int32)(&t.state), int32(stDone))
	select {
	case t.s.sig <- struct{}{}:
	default:
	}
}

// Begin marks the start of an operation: the task parks (idle) and the
// scheduler stamps the call when it releases the task into the operation.
//
//go:norace
func (t *Task) Begin(name string, in any) {
	raceOff()
	if t.curOp != nil {
		t.retPend, t.curOp = t.curOp, nil
	}
	t.nextOp = &OpRec{Task: t.ID, Name: name, In: in, Call: -1, Ret: -1}
	t.park(kOpStart, name, nil)
	raceOn()
}

// End marks the return of the current operation (no scheduling point).
//
//go:norace
func (t *Task) End(out any) {
	raceOff()
	if t.curOp != nil {
		t.curOp.Out = out
		t.curOp.RetT = t.s.Now()
		t.retPend, t.curOp = t.curOp, nil
	}
	raceOn()
}

// WaitFor parks the task until cond (evaluated by the scheduler at quiescent
// points, on harness state only) holds. Returns false when the run is being
// drained and the condition will not be waited for.
//
//go:norace
func (t *Task) WaitFor(name string, cond func() bool) bool {
	raceOff()
	defer raceOn()
	if t.s.draining {
		return false
	}
	t.park(kGuard, name, cond)
	return !t.s.draining || cond()
}

// Sleep lets virtual time pass for this task, then parks so that the
// scheduler decides when it continues.
//
//go:norace
func (t *Task) Sleep(d time.Duration) {
	raceOff()
	if d > 0 {
		atomic.StoreInt32(&t.sleeping, 1)
		time.Sleep(d)
		atomic.StoreInt32(&t.sleeping, 0)
	}
	t.park(kWoke, "woke", nil)
	raceOn()
}

//go:norace
func (t *Task) Done() bool { return taskState(atomic.LoadInt32((*int32)(&t.state))) == stDone }

//go:norace
func (t *Task) parked() bool { return taskState(atomic.LoadInt32((*int32)(&t.state))) == stParked }

//go:norace
func (t *Task) running() bool { return taskState(atomic.LoadInt32((*int32)(&t.state))) == stRunning }

// BlockedInOp: at a quiescent point, the task is durably blocked inside the
// code under test within the named operation ("" = any).
//
//go:norace
func (t *Task) BlockedInOp(name string) bool {
	return t.running() && t.curOp != nil && (name == "" || t.curOp.Name == name)
}

// MidOp: parked at a scheduling point inside an operation.
//
//go:norace
func (t *Task) MidOp() bool { return t.parked() && t.curOp != nil }

// Idle: between operations (parked before the next one) or finished.
//
//go:norace
func (t *Task) Idle() bool {
	return t.Done() || (t.parked() && t.curOp == nil)
}

//go:norace
func (t *Task) Site() string { return t.site }

//go:norace
func (s *Sched) Tasks() []*Task { return s.tasks }

// Fail records the first violation of the run and stops scheduling.
//
//go:norace
func (s *Sched) Fail(class, key, format string, a ...any) {
	if s.fail == nil {
		s.fail = &Violation{Class: class, Key: key, Msg: fmt.Sprintf(format, a...)}
	}
}

//go:norace
func (s *Sched) Failed() *Violation { return s.fail }

//go:norace
func (s *Sched) enabled() []*Task {
	var en []*Task
	prog := atomic.LoadUint64(&s.progress)
	for _, t := range s.tasks {
		if !t.parked() {
			continue
		}
		switch t.kind {
		case kLockWait:
			if t.lockEp < prog {
				en = append(en, t)
			}
		case kGuard:
			if s.draining || t.guard == nil || t.guard() {
				en = append(en, t)
			}
		default:
			en = append(en, t)
		}
	}
	return en
}

//go:norace
func (s *Sched) stamp() {
	for _, t := range s.tasks {
		if t.retPend != nil {
			t.retPend.Ret = s.Step
			if t.retPend.RetT == 0 {
				t.retPend.RetT = s.Now()
			}
			if s.Trace {
				s.trace = append(s.trace, fmt.Sprintf("[%d t=%s] T%d ret %s -> %v", s.Step, time.Duration(s.Now()), t.ID, t.retPend.Name, t.retPend.Out))
			}
			s.mix(uint64(t.ID)<<8 ^ HashString(fmt.Sprintf("ret %s %v", t.retPend.Name, t.retPend.Out)))
			t.retPend = nil
		}
		if t.Panic != nil && s.fail == nil {
			s.Fail("panic", firstLine(fmt.Sprint(t.Panic)), "task %s panicked: %v", t.Name, t.Panic)
		}
	}
}

//go:norace
func firstLine(s string) string {
	for i := 0; i < len(s); i++ {
		if s[i] == '\n' {
			return s[:i]
		}
	}
	return s
}

// lagSafe: may virtual time pass although tasks are runnable? (A task parked right in front of a
// select, with its timer already armed, used to forbid it: two cases could become ready at once and
// the runtime would pick one at random. The order is a tape draw now, see globalSelectHook.)
//
//go:norace
func (s *Sched) lagSafe() bool {
	for _, t := range s.tasks {
		// a goroutine spawned by the code under test (e.g. a subscription helper) is part of some caller's
		// operation: delaying it would delay that caller. Waiting for a busy lock is not the scheduler's doing.
		if s.LagStrict && t.adopted && t.parked() && t.kind != kLockWait {
			return false
		}
	}
	return true
}

//go:norace
func (s *Sched) anySleeping() bool {
	for _, t := range s.tasks {
		if atomic.LoadInt32(&t.sleeping) == 1 {
			return true
		}
	}
	return false
}

//go:norace
func (s *Sched) allDone() bool {
	for _, t := range s.tasks {
		if !t.daemon && !t.Done() {
			return false
		}
	}
	return true
}

//go:norace
func (s *Sched) drainSig() {
	select {
	case <-s.sig:
	default:
	}
}

//go:norace
func (s *Sched) release(t *Task) {
	if t.kind == kLockWait {
		s.LockWaits++
	} else {
		atomic.AddUint64(&s.progress, 1)
	}
	for _, u := range s.tasks {
		if u != t && u.curOp != nil && !u.curOp.settled {
			u.curOp.Solo = false
		}
	}
	if t.nextOp != nil && t.kind == kOpStart {
		op := t.nextOp
		t.nextOp = nil
		op.Call = s.Step
		op.CallT = s.Now()
		op.Solo = true
		for _, u := range s.tasks {
			if u != t && u.MidOp() {
				op.Solo = false
			}
		}
		if s.OnCall != nil {
			s.OnCall(t, op)
		}
		t.curOp = op
		s.Ops = append(s.Ops, op)
		if s.Trace {
			s.trace = append(s.trace, fmt.Sprintf("[%d t=%s] T%d call %s %v", s.Step, time.Duration(s.Now()), t.ID, op.Name, op.In))
		}
		s.mix(uint64(t.ID)<<8 ^ HashString("call "+op.Name))
	} else if s.Trace {
		s.trace = append(s.trace, fmt.Sprintf("[%d] T%d run from %s (kind %d)", s.Step, t.ID, t.site, t.kind))
	}
	s.mix(uint64(t.ID)<<16 ^ uint64(t.kind)<<8 ^ HashString(t.site))
	if s.cur != t {
		s.Switches++
	}
	s.cur = t
	wasLW := t.kind == kLockWait
	atomic.StoreInt32((*int32)(&t.state), int32(stRunning))
	t.wake <- struct{}{}
	synctest.Wait()
	if wasLW && !(t.parked() && t.kind == kLockWait) {
		atomic.AddUint64(&s.progress, 1) // the lock was obtained
	}
	for _, u := range s.tasks {
		if u.curOp != nil && u.running() {
			u.curOp.Blocked = true
			u.curOp.settled = true
		}
		if u.retPend != nil {
			u.retPend.settled = true
		}
	}
	s.drainSig()
	s.Step++
	heartbeat.Add(1)
}

//go:norace
func (s *Sched) choose(en []*Task) *Task {
	if len(en) == 1 {
		// still consume nothing: a forced move is not a choice
		return en[0]
	}
	// order: current task first, then by id
	ord := make([]*Task, 0, len(en))
	for _, t := range en {
		if t == s.cur {
			ord = append(ord, t)
		}
	}
	for _, t := range en {
		if t != s.cur {
			ord = append(ord, t)
		}
	}
	switch s.strategy {
	case 1: // uniform
		return ord[s.T.Intn(len(ord), "sched")]
	case 2: // PCT: highest priority enabled task; priority change points
		for _, p := range s.pctPoints {
			if p == s.Step && s.cur != nil {
				s.cur.prio = -s.Step
			}
		}
		best := ord[0]
		for _, t := range ord[1:] {
			if t.prio > best.prio {
				best = t
			}
		}
		return best
	default: // sticky random
		if ord[0] == s.cur {
			if s.T.Intn(100, "switch?") < 100-s.stickPct {
				return ord[0]
			}
			return ord[1+s.T.Intn(len(ord)-1, "sched")]
		}
		return ord[s.T.Intn(len(ord), "sched")]
	}
}

// Run executes the schedule until every task is done, a violation is
// recorded, the step cap is hit, or nothing can happen any more.
//
//go:norace
func (s *Sched) Run() {
	s.Activate()
	defer s.Deactivate()
	// scheduling strategy (swarm): drawn first so it is part of the tape
	s.strategy = s.T.Pick([]int{6, 2, 2}, "strategy")
	switch s.strategy {
	case 0:
		s.stickPct = []int{10, 25, 50, 75}[s.T.Intn(4, "stick")]
	case 2:
		d := 1 + s.T.Intn(3, "pct-d")
		for i := 0; i < d; i++ {
			s.pctPoints = append(s.pctPoints, s.T.Intn(120, "pct-point"))
		}
		for _, t := range s.tasks {
			t.prio = 1 + s.T.Intn(1000, "prio")
		}
	}
	synctest.Wait()
	s.drainSig()
	s.loop()
	if s.fail == nil && s.Deadlocked && !s.NoDeadlockFail {
		// virtual hours passed with tasks waiting for a lock and nothing else able to run: a lock cycle or a
		// goroutine waiting for a lock it holds itself. No property of a call that never returns can hold.
		site, who := "", ""
		for _, t := range s.tasks {
			if t.parked() && t.kind == kLockWait {
				site, who = t.site, t.Name
				break
			}
		}
		s.Fail("lock-deadlock", site, "task %q waits forever for the lock at %s: nothing else can run and %s of virtual time passed (self-deadlock or lock cycle)", who, site, s.IdleLimit)
	}
	if s.fail == nil && s.OnEnd != nil {
		s.OnEnd()
	}
	s.drain()
	if s.fail == nil && s.AfterDrain != nil {
		s.Activate()
		s.AfterDrain()
		s.Deactivate()
	}
}

//go:norace
func (s *Sched) loop() {
	for s.fail == nil {
		s.stamp()
		if s.fail != nil {
			return
		}
		if s.OnQuiescent != nil {
			s.OnQuiescent()
			if s.fail != nil {
				return
			}
		}
		if s.Step >= s.MaxSteps || time.Duration(s.Now()) > s.MaxVirt {
			s.Truncated = true
			return
		}
		en := s.enabled()
		if len(en) == 0 {
			if s.allDone() {
				return
			}
			s.StableCount++
			if s.OnStable != nil {
				s.OnStable()
				if s.fail != nil {
					return
				}
				// OnStable may have created tasks or changed guard state
				if len(s.enabled()) > 0 {
					continue
				}
			}
			if !s.idle() {
				return
			}
			continue
		}
		if s.LagPct > 0 && s.anySleeping() && s.lagSafe() && s.T.Intn(100, "lag?") >= 100-s.LagPct {
			s.Lags++
			for _, lt := range s.tasks {
				if lt.parked() {
					lt.Lagged = true // also lock-waiters: they wait for somebody who is being delayed
				}
			}
			if s.idle() {
				continue
			}
		}
		// new tasks created mid-run under PCT need a priority
		if s.strategy == 2 {
			for _, t := range en {
				if t.prio == 0 {
					t.prio = 1 + s.T.Intn(1000, "prio")
				}
			}
		}
		s.release(s.choose(en))
	}
}

// idle lets virtual time advance until some goroutine parks at a scheduling
// point or IdleLimit passes with nothing happening. Returns false if nothing
// will ever happen (everything left is blocked for good).
//
//go:norace
func (s *Sched) idle() bool {
	lockWaiters := false
	for _, t := range s.tasks {
		if t.parked() && t.kind == kLockWait {
			lockWaiters = true
		}
	}
	tm := time.NewTimer(s.IdleLimit)
	defer tm.Stop()
	before := s.Now()
	select {
	case <-s.sig:
		synctest.Wait()
		s.drainSig()
		atomic.AddUint64(&s.progress, 1)
		if s.Now() != before {
			s.TimeJumps++
			s.mix(uint64(s.Now()))
		}
		return true
	case <-tm.C:
		if lockWaiters {
			s.Deadlocked = true
		}
		return false
	}
}

// drain tries to let every goroutine finish so the bubble can end cleanly.
//
//go:norace
func (s *Sched) drain() {
	s.draining = true
	s.Activate()
	if s.OnDrain != nil {
		s.OnDrain()
	}
	for _, t := range s.tasks {
		if t.Cancel != nil {
			t.Cancel()
		}
	}
	synctest.Wait()
	for i := 0; i < 3000; i++ {
		s.stampQuiet()
		en := s.enabled()
		if len(en) == 0 {
			if s.allDone() {
				break
			}
			tm := time.NewTimer(4 * time.Hour)
			select {
			case <-s.sig:
				tm.Stop()
				synctest.Wait()
				s.drainSig()
				atomic.AddUint64(&s.progress, 1)
				continue
			case <-tm.C:
			}
			break
		}
		t := en[0]
		if t.kind != kLockWait {
			atomic.AddUint64(&s.progress, 1)
		}
		if t.nextOp != nil && t.kind == kOpStart {
			t.curOp, t.nextOp = t.nextOp, nil
		}
		atomic.StoreInt32((*int32)(&t.state), int32(stRunning))
		t.wake <- struct{}{}
		synctest.Wait()
		s.drainSig()
		heartbeat.Add(1)
	}
	s.stampQuiet()
}

//go:norace
func (s *Sched) stampQuiet() {
	for _, t := range s.tasks {
		if t.retPend != nil && !t.running() {
			t.retPend = nil
		}
	}
}

// Leftover reports tasks that did not finish (after drain).
//
//go:norace
func (s *Sched) Leftover() int {
	n := 0
	for _, t := range s.tasks {
		if !t.daemon && !t.Done() {
			n++
		}
	}
	return n
}

// RootCall runs f on the scheduler's goroutine; if f would block on a lock
// held by a parked task it is abandoned and ok=false is returned.
//
//go:norace
func RootCall(f func()) (ok bool) {
	defer func() {
		if r := recover(); r != nil {
			if _, wb := r.(verifsim.WouldBlock); wb {
				ok = false
				return
			}
			panic(r)
		}
	}()
	f()
	return true
}

// outsideBubble: goroutines the runtime owns (finalizers, cleanups). Decided once per goroutine id from its stack.
var runtimeOwned sync.Map // gid -> bool

//go:norace
func outsideBubble(gid uint64) bool {
	if v, ok := runtimeOwned.Load(gid); ok {
		return v.(bool)
	}
	buf := make([]byte, 256<<10)
	buf = buf[:runtime.Stack(buf, false)]
	st := string(buf)
	out := strings.Contains(st, "runtime.runFinalizers") || strings.Contains(st, "runtime.runCleanups") || strings.Contains(st, "runtime.runfinq")
	runtimeOwned.Store(gid, out)
	return out
}
