package harness

import (
	"context"
	"fmt"
	"time"

	"github.com/anishathalye/porcupine"
	"github.com/platinummonkey/go-concurrency-limits/core"
	"github.com/platinummonkey/go-concurrency-limits/strategy"
	"github.com/platinummonkey/go-concurrency-limits/strategy/matchers"
)

func init() {
	Register(&Prop{
		ID: "C03", Bubble: true, Run: runC03, QuickRuns: 3000,
		ExpectedProbes: []string{"refused", "borrowed_beyond_share"},
		Rule: "one run = lookup or predicate partition strategy with 1..4 partitions (fractions k/32, sum <= 1, duplicate predicates for first-match), total limit 1..64, and a seeded history of TryAcquire (known / unknown / non-matching keys), Release, SetLimit (incl. <= 0), AddPartition and RemovePartition with tokens outstanding; sequential mode: lock-step equality of every result and of BusyCount / Limit / BinBusyCount / BinLimit with an executable reference gate (admitted iff total < L or bin < max(1, ceil(L x fraction)) of the current L); concurrent mode: 2..4 tasks under a seeded schedule, history checked with porcupine against the same gate; " +
			"non-trivial = some request was refused or borrowed beyond its share, and (sequential) a partition was added/removed or the limit changed with tokens outstanding; distinct = distinct event hashes / choice tapes",
		Real:        []string{"strategy.LookupPartitionStrategy", "strategy.PredicatePartitionStrategy", "strategy.LookupPartition", "strategy.PredicatePartition", "strategy/matchers"},
		Stubs:       []string{"none (empty metric registry)"},
		FaultKinds:  []string{"F-part", "F-limit", "F-preempt"},
		Assumptions: []string{"fractions are dyadic (k/32) so ceil(L x fraction) is unambiguous in floating point"},
	})
}

// reference model
type refBin struct {
	name     string // partition name
	match    string // key it matches
	also     string // predicate only: a second key it matches as well (overlapping predicates)
	k        int    // fraction k/32
	busy     int
	active   bool
	replaced bool   // lookup: a fresh object has been registered under this key since
	obj      string // object name (lookup)
}

type refGate struct {
	kind    string
	L       int
	busy    int
	bins    []*refBin // registration order (active and removed)
	unknown *refBin   // lookup only
}

func share(L, k int) int {
	s := (L*k + 31) / 32
	if s < 1 {
		s = 1
	}
	return s
}

func (b *refBin) hit(key string) bool {
	return b.match == key || (b.also != "" && b.also == key)
}

func (g *refGate) find(key string) *refBin {
	for _, b := range g.bins {
		if b.active && b.hit(key) {
			return b
		}
	}
	if g.kind == "lookup" {
		return g.unknown
	}
	return nil
}

func (g *refGate) tryAcquire(key string) (*refBin, bool) {
	b := g.find(key)
	if b == nil {
		return nil, false
	}
	if g.busy < g.L || b.busy < share(g.L, b.k) {
		g.busy++
		b.busy++
		return b, true
	}
	return b, false
}

func (g *refGate) activeBins() []*refBin {
	var out []*refBin
	for _, b := range g.bins {
		if b.active {
			out = append(out, b)
		}
	}
	return out
}

type partSUT struct {
	kind   string
	lookup *strategy.LookupPartitionStrategy
	pred   *strategy.PredicatePartitionStrategy
	preds  map[string]*strategy.PredicatePartition
	lparts map[string]*strategy.LookupPartition // lookup: the object last registered under each key
}

// readd registers a partition again under a key that was removed earlier: the very same object (its outstanding
// tokens are still bound to it) or, for the lookup strategy, a fresh object under the old key.
func (p *partSUT) readd(s partSpec, sameObject bool) bool {
	if p.kind == "lookup" {
		obj := p.lparts[s.name]
		if !sameObject || obj == nil {
			obj = strategy.NewLookupPartitionWithMetricRegistry(s.objName(), float64(s.k)/32, 1, core.EmptyMetricRegistryInstance)
			p.lparts[s.name] = obj
		}
		return p.lookup.AddPartition(s.name, obj)
	}
	return p.pred.AddPartition(p.preds[s.name])
}

func (p *partSUT) strat() core.Strategy {
	if p.lookup != nil {
		return p.lookup
	}
	return p.pred
}

func (p *partSUT) ctx(key string) context.Context {
	if key == "" {
		return bg
	}
	if p.kind == "lookup" {
		return context.WithValue(bg, matchers.LookupPartitionContextKey, key)
	}
	return context.WithValue(bg, matchers.StringPredicateContextKey, key)
}

type partSpec struct {
	name, match string
	k           int
	obj         string // the partition object's own Name(); the lookup strategy is keyed by the caller's map key, not by this
	also        string // predicate: the predicate matches this key too (a superset of an earlier partition's predicate)
}

func (s partSpec) predicate() func(ctx context.Context) bool {
	if s.also == "" {
		return matchers.StringPredicateMatcher(s.match, false)
	}
	return func(ctx context.Context) bool {
		v, _ := ctx.Value(matchers.StringPredicateContextKey).(string)
		return v == s.match || v == s.also
	}
}

func (s partSpec) objName() string {
	if s.obj != "" {
		return s.obj
	}
	return s.name
}

func buildPartSUT(kind string, specs []partSpec, L int) (*partSUT, error) {
	p := &partSUT{kind: kind, preds: map[string]*strategy.PredicatePartition{}, lparts: map[string]*strategy.LookupPartition{}}
	reg := core.EmptyMetricRegistryInstance
	if kind == "lookup" {
		parts := map[string]*strategy.LookupPartition{}
		for _, s := range specs {
			parts[s.name] = strategy.NewLookupPartitionWithMetricRegistry(s.objName(), float64(s.k)/32, 1, reg)
			p.lparts[s.name] = parts[s.name]
		}
		var err error
		p.lookup, err = strategy.NewLookupPartitionStrategyWithMetricRegistry(parts, nil, int32(L), reg)
		return p, err
	}
	var parts []*strategy.PredicatePartition
	for _, s := range specs {
		pp := strategy.NewPredicatePartitionWithMetricRegistry(s.name, float64(s.k)/32, s.predicate(), reg)
		p.preds[s.name] = pp
		parts = append(parts, pp)
	}
	var err error
	p.pred, err = strategy.NewPredicatePartitionStrategyWithMetricRegistry(parts, int32(L), reg)
	return p, err
}

func (p *partSUT) add(s partSpec) bool {
	if p.kind == "lookup" {
		p.lparts[s.name] = strategy.NewLookupPartitionWithMetricRegistry(s.objName(), float64(s.k)/32, 1, core.EmptyMetricRegistryInstance)
		return p.lookup.AddPartition(s.name, p.lparts[s.name])
	}
	pp := strategy.NewPredicatePartitionWithMetricRegistry(s.name, float64(s.k)/32, s.predicate(), core.EmptyMetricRegistryInstance)
	p.preds[s.name] = pp
	return p.pred.AddPartition(pp)
}

func drawPartSpecs(t *Tape, kind string) (init []partSpec, later []partSpec) {
	n := 1 + t.Intn(4, "partitions")
	left := 32
	names := []string{"a", "b", "c", "d", "e", "f"}
	// lookup: partition objects named differently from the keys they are registered under (tenant ids -> tier labels)
	tiers := kind == "lookup" && t.Chance(40, "object-names-differ")
	emptyKey := kind == "lookup" && t.Chance(15, "empty-key-partition")
	mk := func(i int) partSpec {
		k := 0
		if left > 0 {
			k = t.Intn(minInt(left, 20)+1, "frac-k")
		}
		left -= k
		s := partSpec{name: names[i], match: names[i], k: k}
		if emptyKey && i == 0 {
			s.name, s.match = "", "" // a partition registered under the empty key: requests without a key belong to it
		}
		if tiers {
			s.obj = []string{"gold", "silver"}[i%2]
		}
		if kind == "predicate" && i > 0 && t.Chance(25, "dup-predicate") {
			s.match = names[i-1] // a second predicate matching the same requests: the first registered must be charged
		} else if kind == "predicate" && i > 0 && t.Chance(30, "superset-predicate") {
			s.also = names[i-1] // matches its own key and the previous partition's: requests for that key belong to the earlier one
		}
		return s
	}
	for i := 0; i < n; i++ {
		init = append(init, mk(i))
	}
	m := t.Intn(3, "later-partitions")
	for i := 0; i < m; i++ {
		later = append(later, mk(n+i))
	}
	return
}

// runC03Alias: one lookup partition object registered under two keys (a tier shared by two tenants); one of the keys
// is removed later. The surviving key keeps the partition: its share of the current limit and its admissions.
func runC03Alias(r *Run) {
	t := r.T
	L := 2 + t.Intn(40, "alias-limit")
	kA, kB := 1+t.Intn(20, "alias-frac-a"), t.Intn(12, "alias-frac-b")
	reg := core.EmptyMetricRegistryInstance
	objA := strategy.NewLookupPartitionWithMetricRegistry("tierA", float64(kA)/32, 1, reg)
	objB := strategy.NewLookupPartitionWithMetricRegistry("tierB", float64(kB)/32, 1, reg)
	st, err := strategy.NewLookupPartitionStrategyWithMetricRegistry(map[string]*strategy.LookupPartition{"a": objA, "b": objB}, nil, int32(L), reg)
	if err != nil {
		r.Fail("harness", "build", "%v", err)
		return
	}
	st.AddPartition("a2", objA)
	gone, keep := "a", "a2"
	if t.Chance(50, "alias-remove-second") {
		gone, keep = "a2", "a"
	}
	newL := func(tag string) {
		if t.Chance(50, tag) {
			L = 2 + t.Intn(40, tag+"-v")
			st.SetLimit(L)
		}
	}
	ctxFor := func(key string) context.Context {
		return context.WithValue(bg, matchers.LookupPartitionContextKey, key)
	}
	var held []core.StrategyToken
	for i, n := 0, t.Intn(3, "alias-held-before"); i < n; i++ { // some requests of the shared tier are in flight meanwhile
		if tok, ok := st.TryAcquire(ctxFor([]string{"a", "a2"}[i%2])); ok {
			held = append(held, tok)
		}
	}
	newL("alias-setlimit-before")
	st.RemovePartition(gone)
	newL("alias-setlimit-after")
	r.Mixf("C03 alias L=%d fracA=%d/32 fracB=%d/32 removed=%s kept=%s held=%d", L, kA, kB, gone, keep, len(held))
	want := share(L, kA)
	if got, err := st.BinLimit(keep); err != nil || got != want {
		r.Fail("bin-limit-wrong", "lookup/alias", "partition object registered under keys a and a2; after RemovePartition(%q) BinLimit(%q) = %d (err %v), expected its share %d of the limit %d", gone, keep, got, err, want, L)
		return
	}
	for _, tok := range held {
		tok.Release()
	}
	// fill the total with requests of other tenants, then the kept key is admitted exactly up to its share
	for i := 0; i < L; i++ {
		if _, ok := st.TryAcquire(ctxFor("zz")); !ok {
			r.Fail("refused-with-room", "lookup/alias", "request %d of %d for an unknown key refused while the total is below the limit", i+1, L)
			return
		}
	}
	got := 0
	for i := 0; i < want+2; i++ {
		if _, ok := st.TryAcquire(ctxFor(keep)); ok {
			got++
		}
	}
	if got != want {
		r.Fail("bin-mismatch", "lookup/alias", "with the total limit %d in use, key %q (its partition is also registered under the removed key %q) was admitted %d time(s); its share is %d", L, keep, gone, got, want)
		return
	}
	r.Nontrivial = true
	r.Probe("lookup_partition_under_two_keys")
}

// runC03Moved: partition objects that served one strategy are used to build the next one (a configuration reload that
// keeps the tier objects). Tokens of the new strategy are accounted in the new strategy - totals and bins.
func runC03Moved(r *Run) {
	t := r.T
	kind := []string{"lookup", "predicate"}[t.Intn(2, "moved-kind")]
	L1, L2 := 2+t.Intn(8, "moved-limit-1"), 2+t.Intn(8, "moved-limit-2")
	kA := 1 + t.Intn(20, "moved-frac")
	reg := core.EmptyMetricRegistryInstance
	type strat interface {
		core.Strategy
		BusyCount() int
	}
	var objBusy func() int
	var mk func(L int) (strat, error)
	var ctxA context.Context
	if kind == "lookup" {
		obj := strategy.NewLookupPartitionWithMetricRegistry("tier", float64(kA)/32, 1, reg)
		objBusy = obj.BusyCount
		mk = func(L int) (strat, error) {
			return strategy.NewLookupPartitionStrategyWithMetricRegistry(map[string]*strategy.LookupPartition{"a": obj}, nil, int32(L), reg)
		}
		ctxA = context.WithValue(bg, matchers.LookupPartitionContextKey, "a")
	} else {
		obj := strategy.NewPredicatePartitionWithMetricRegistry("tier", float64(kA)/32, matchers.StringPredicateMatcher("a", false), reg)
		objBusy = obj.BusyCount
		mk = func(L int) (strat, error) {
			return strategy.NewPredicatePartitionStrategyWithMetricRegistry([]*strategy.PredicatePartition{obj}, int32(L), reg)
		}
		ctxA = context.WithValue(bg, matchers.StringPredicateContextKey, "a")
	}
	st1, err := mk(L1)
	if err != nil {
		r.Fail("harness", "build", "%v", err)
		return
	}
	cycle := func(st strat, n int) bool {
		for i := 0; i < n; i++ {
			tok, ok := st.TryAcquire(ctxA)
			if !ok {
				r.Fail("refused-with-room", kind+"/moved", "request %d refused by a strategy with nothing in flight", i+1)
				return false
			}
			tok.Release()
		}
		return true
	}
	n1, n2 := 1+t.Intn(4, "moved-cycles-1"), 1+t.Intn(2*L2, "moved-cycles-2")
	if !cycle(st1, n1) {
		return
	}
	st2, err := mk(L2)
	if err != nil {
		r.Fail("harness", "build", "%v", err)
		return
	}
	if !cycle(st2, n2) {
		return
	}
	r.Mixf("C03 moved %s L1=%d L2=%d frac=%d/32 cycles=%d,%d", kind, L1, L2, kA, n1, n2)
	if b1, b2, bo := st1.BusyCount(), st2.BusyCount(), objBusy(); b1 != 0 || b2 != 0 || bo != 0 {
		r.Fail("busy-mismatch", kind+"/moved", "a partition object served %d acquire/release cycles in one strategy and %d in the strategy built from it afterwards; nothing is in flight, but the first strategy counts %d, the second %d, the partition %d", n1, n2, b1, b2, bo)
		return
	}
	r.Nontrivial = true
	r.Probe("partition_object_moved_to_a_new_strategy")
}

func runC03(r *Run) {
	t := r.T
	if t.Chance(6, "alias-scenario") {
		runC03Alias(r)
		return
	}
	if t.Chance(4, "moved-scenario") {
		runC03Moved(r)
		return
	}
	kind := []string{"lookup", "predicate"}[t.Intn(2, "kind")]
	concurrent := t.Chance(40, "concurrent")
	initSpecs, laterSpecs := drawPartSpecs(t, kind)
	L := 1 + t.Intn(64, "limit")
	if t.Chance(50, "small-limit") {
		L = 1 + t.Intn(6, "limit-small")
	}
	sut, err := buildPartSUT(kind, initSpecs, L)
	if err != nil {
		r.Fail("harness", "build", "%v", err)
		return
	}
	g := &refGate{kind: kind, L: L}
	for _, s := range initSpecs {
		g.bins = append(g.bins, &refBin{name: s.name, match: s.match, also: s.also, k: s.k, obj: s.obj, active: true})
	}
	if kind == "lookup" {
		g.unknown = &refBin{name: "<unknown>", k: 0, active: true}
	}
	r.Mixf("C03 %s concurrent=%v L=%d partitions=%v later=%v", kind, concurrent, L, initSpecs, laterSpecs)
	if concurrent {
		runC03Concurrent(r, sut, g, initSpecs)
		return
	}
	keys := []string{"a", "b", "c", "d", "e", "zz", ""}
	type held struct {
		tok core.StrategyToken
		bin *refBin
	}
	var out []held
	n := 20 + t.Intn(scale(120, 500), "ops")
	refusedOrBorrowed, dynamic := false, false
	compare := func(i int, what string) bool {
		if got := sutBusy(sut); got != g.busy {
			r.Fail("busy-mismatch", kind, "after op %d (%s): BusyCount %d, reference %d", i, what, got, g.busy)
			return false
		}
		if got := sutLimit(sut); got != g.L {
			r.Fail("limit-mismatch", kind, "after op %d (%s): Limit %d, reference %d", i, what, got, g.L)
			return false
		}
		for idx, b := range g.activeBins() {
			var bb, bl int
			var e1, e2 error
			if kind == "lookup" {
				bb, e1 = sut.lookup.BinBusyCount(b.name)
				bl, e2 = sut.lookup.BinLimit(b.name)
			} else {
				bb, e1 = sut.pred.BinBusyCount(idx)
				bl, e2 = sut.pred.BinLimit(idx)
			}
			if e1 != nil || e2 != nil {
				r.Fail("bin-missing", kind, "after op %d (%s): partition %s not reported (%v %v)", i, what, b.name, e1, e2)
				return false
			}
			if bb != b.busy {
				r.Fail("bin-busy-mismatch", kind, "after op %d (%s): partition %s busy %d, reference %d", i, what, b.name, bb, b.busy)
				return false
			}
			if want := share(g.L, b.k); bl != want {
				key := kind + "/share"
				if dynamicAdded(b, initSpecs) {
					key = kind + "/added-partition-share"
				}
				r.Fail("share-mismatch", key, "after op %d (%s): partition %s (fraction %d/32) has share %d but max(1, ceil(%d x %d/32)) = %d", i, what, b.name, b.k, bl, g.L, b.k, want)
				return false
			}
		}
		return true
	}
	if !compare(-1, "construction") {
		return
	}
	for i := 0; i < n; i++ {
		act := t.Pick([]int{10, 7, 2, 1, 1}, "op") // acquire, release, setlimit, add, remove
		if act == 1 && len(out) == 0 {
			act = 0
		}
		switch act {
		case 0:
			key := keys[t.Intn(len(keys), "key")]
			actx := sut.ctx(key)
			if t.Chance(8, "abandoned-context") {
				// admission is decided by the total and the bin, not by whether the caller is still interested
				var cancel context.CancelFunc
				actx, cancel = context.WithCancel(actx)
				cancel()
				r.Probe("acquire_with_cancelled_context")
			}
			tok, ok := sut.strat().TryAcquire(actx)
			bin, want := g.tryAcquire(key)
			what := fmt.Sprintf("TryAcquire(%q) -> %v", key, ok)
			if r.Verbose {
				r.Notef("op %d %s (reference %v; total %d/%d)", i, what, want, g.busy, g.L)
			}
			if ok != want {
				cls, k2 := "refused-with-room", kind
				if ok {
					cls = "over-admission"
				}
				if bin == g.unknown && bin != nil {
					k2 = kind + "/unknown-key"
				} else if bin != nil && dynamicAdded(bin, initSpecs) {
					k2 = kind + "/added-partition-share"
				} else if bin == nil {
					k2 = kind + "/no-match"
				}
				shareTxt := ""
				if bin != nil {
					shareTxt = fmt.Sprintf("partition %s busy %d share %d", bin.name, bin.busy-boolInt(want), share(g.L, bin.k))
				}
				r.Fail(cls, k2, "op %d TryAcquire(%q) returned %v but the gate says %v (total %d of limit %d; %s)", i, key, ok, want, g.busy-boolInt(want), g.L, shareTxt)
				return
			}
			if ok {
				if tok == nil || !tok.IsAcquired() {
					r.Fail("token-inconsistent", kind, "ok=true with a token that is not acquired")
					return
				}
				out = append(out, held{tok, bin})
				if bin.busy > share(g.L, bin.k) {
					refusedOrBorrowed = true
					r.Probe("borrowed_beyond_share")
				}
			} else {
				refusedOrBorrowed = true
				r.Probe("refused")
			}
			if !compare(i, what) {
				return
			}
		case 1:
			k := t.Intn(len(out), "which")
			h := out[k]
			out = append(out[:k], out[k+1:]...)
			h.tok.Release()
			g.busy--
			h.bin.busy--
			if !compare(i, "Release of a "+h.bin.name+" token") {
				return
			}
		case 2:
			v := []int{1, 2, 3, 5, 8, 16, 33, 64, 0, -4, g.L}[t.Intn(11, "setlimit")]
			sut.strat().SetLimit(v)
			g.L = maxInt(1, v)
			if len(out) > 0 {
				dynamic = true
				r.Fault("F-limit")
			}
			if !compare(i, fmt.Sprintf("SetLimit(%d)", v)) {
				return
			}
		case 3:
			var removed []*refBin
			for _, b := range g.bins {
				if !b.active && !b.replaced {
					removed = append(removed, b)
				}
			}
			if len(removed) > 0 && t.Chance(50, "re-add-removed") {
				// a removed partition comes back: the same object (tokens handed out before the removal are still bound
				// to it and keep counting in its bin), or - lookup - a fresh object under the old key (starts at zero;
				// the old tokens, released later, must not touch it)
				b := removed[t.Intn(len(removed), "re-add-which")]
				same := kind != "lookup" || t.Chance(50, "re-add-same-object")
				sp := partSpec{name: b.name, match: b.match, also: b.also, k: b.k, obj: b.obj}
				if !sut.readd(sp, same) {
					r.Fail("add-partition-failed", kind, "AddPartition(%s) (re-adding a removed partition, same object=%v) returned false", b.name, same)
					return
				}
				nb := b
				if same {
					// back at the end of the registration order
					for j, x := range g.bins {
						if x == b {
							g.bins = append(g.bins[:j], g.bins[j+1:]...)
							break
						}
					}
				} else {
					b.replaced = true
					nb = &refBin{name: b.name, match: b.match, also: b.also, k: b.k, obj: b.obj}
				}
				nb.active = true
				g.bins = append(g.bins, nb)
				dynamic = true
				r.Fault("F-part:re-add")
				r.Probe("partition_re_added")
				if !compare(i, fmt.Sprintf("re-adding partition %s (same object=%v)", b.name, same)) {
					return
				}
				continue
			}
			if len(laterSpecs) == 0 {
				continue
			}
			s := laterSpecs[0]
			laterSpecs = laterSpecs[1:]
			if !sut.add(s) {
				r.Fail("add-partition-failed", kind, "AddPartition(%s) returned false", s.name)
				return
			}
			g.bins = append(g.bins, &refBin{name: s.name, match: s.match, also: s.also, k: s.k, obj: s.obj, active: true})
			dynamic = true
			r.Fault("F-part:add")
			if !compare(i, "AddPartition "+s.name) {
				return
			}
		case 4:
			act := g.activeBins()
			if len(act) <= 1 {
				continue
			}
			b := act[t.Intn(len(act), "remove-which")]
			if kind == "lookup" {
				n, ok := sut.lookup.RemovePartition(b.name)
				if !ok || n != b.busy {
					r.Fail("remove-partition-wrong", kind, "RemovePartition(%s) returned (%d,%v), partition had %d outstanding", b.name, n, ok, b.busy)
					return
				}
				b.active = false
			} else {
				rem, ok := sut.pred.RemovePartitionsMatching(sut.ctx(b.match))
				cnt := 0
				for _, x := range g.bins {
					if x.active && x.hit(b.match) {
						x.active = false
						cnt++
					}
				}
				if !ok || len(rem) != cnt {
					r.Fail("remove-partition-wrong", kind, "RemovePartitionsMatching(%s) removed %d partitions, expected %d", b.match, len(rem), cnt)
					return
				}
			}
			if b.busy > 0 {
				dynamic = true
			}
			r.Fault("F-part:remove")
			if !compare(i, "RemovePartition "+b.name) {
				return
			}
		}
	}
	if refusedOrBorrowed && dynamic {
		r.Nontrivial = true
	}
}

func dynamicAdded(b *refBin, init []partSpec) bool {
	for _, s := range init {
		if s.name == b.name {
			return false
		}
	}
	return b.name != "<unknown>"
}

func sutBusy(p *partSUT) int {
	if p.lookup != nil {
		return p.lookup.BusyCount()
	}
	return p.pred.BusyCount()
}
func sutLimit(p *partSUT) int {
	if p.lookup != nil {
		return p.lookup.Limit()
	}
	return p.pred.Limit()
}

// ---- concurrent mode: porcupine against the same gate ----

type pgState struct {
	L      int
	busy   int
	bb     [8]int   // per bin (index in specs; then unknown; then the dynamically added partition)
	dyn    bool     // the dynamic partition has been added
	tokBin [24]int8 // bin charged for token i (acquires of the dynamic key: decided at the linearization point)
}

type pgIn struct {
	kind int // 0 acquire(bin) 1 release(bin) 2 setlimit(v) 3 add the dynamic partition
	bin  int // -1 = no matching partition; -2 = the dynamic key (bin depends on whether the partition exists yet)
	v    int
	tok  int
}

func runC03Concurrent(r *Run, sut *partSUT, g *refGate, specs []partSpec) {
	t := r.T
	s := r.NewSched()
	// bin index = position in specs, unknown = len(specs), dynamically added partition = len(specs)+1
	ks := make([]int, 0, 7)
	for _, sp := range specs {
		ks = append(ks, sp.k)
	}
	ks = append(ks, 0) // unknown
	// one partition ("dyn") may be added while the others are in use, possibly by two tasks at once
	sumK := 0
	for _, sp := range specs {
		sumK += sp.k
	}
	dynK := t.Intn(minInt(32-sumK, 12)+1, "dyn-k")
	dynIdx := len(ks)
	ks = append(ks, dynK)
	unknownIdx := len(specs)
	dynSpec := partSpec{name: "dyn", match: "dyn", k: dynK}
	var dynPred *strategy.PredicatePartition
	if sut.kind != "lookup" {
		dynPred = strategy.NewPredicatePartitionWithMetricRegistry("dyn", float64(dynK)/32, matchers.StringPredicateMatcher("dyn", false), core.EmptyMetricRegistryInstance)
	}
	addDyn := func() bool {
		if sut.kind == "lookup" {
			return sut.add(dynSpec) // a fresh object per call, same key
		}
		return sut.pred.AddPartition(dynPred) // the same object: a second registration must be refused
	}
	nextTok := 0
	binOf := func(key string) int {
		if key == "dyn" {
			return -2
		}
		for i, sp := range specs {
			if sp.match == key || (sp.also != "" && sp.also == key) {
				return i
			}
		}
		if sut.kind == "lookup" {
			return len(specs)
		}
		return -1
	}
	model := porcupine.Model{
		Init: func() interface{} { return pgState{L: g.L} },
		Step: func(state, input, output interface{}) (bool, interface{}) {
			st := state.(pgState)
			in := input.(pgIn)
			switch in.kind {
			case 0:
				ok := output.(bool)
				bin := in.bin
				if bin == -2 {
					switch {
					case st.dyn:
						bin = dynIdx
					case sut.kind == "lookup":
						bin = unknownIdx
					default:
						bin = -1
					}
				}
				if bin < 0 {
					return !ok, st
				}
				admit := st.busy < st.L || st.bb[bin] < share(st.L, ks[bin])
				if ok != admit {
					return false, st
				}
				if ok {
					st.busy++
					st.bb[bin]++
					st.tokBin[in.tok] = int8(bin)
				}
				return true, st
			case 1:
				bin := int(st.tokBin[in.tok])
				st.busy--
				st.bb[bin]--
				return st.busy >= 0 && st.bb[bin] >= 0, st
			case 3:
				added := output.(bool)
				if added == st.dyn {
					return false, st // true exactly when the partition did not exist yet
				}
				st.dyn = true
				return true, st
			default:
				st.L = maxInt(1, in.v)
				return true, st
			}
		},
		Equal: func(a, b interface{}) bool { return a.(pgState) == b.(pgState) },
	}
	nTasks := 2 + t.Intn(3, "tasks")
	keys := []string{"a", "b", "c", "zz", "dyn", "dyn"}
	type histOp struct {
		op *OpRec
		in pgIn
	}
	var hist []*histOp
	for i := 0; i < nTasks; i++ {
		rounds := 1 + t.Intn(4, "rounds")
		type rd struct {
			key  string
			set  bool
			add  bool
			hold bool // keep the token until the end of the task (capacity stays in use while limits and partitions change)
			v    int
		}
		var rds []rd
		for k := 0; k < rounds; k++ {
			x := rd{key: keys[t.Intn(len(keys), "key")]}
			if t.Chance(20, "set?") {
				x.set, x.v = true, []int{1, 2, 3, 0, 6}[t.Intn(5, "v")]
			} else if t.Chance(20, "add-dyn?") {
				x.add = true
			} else {
				x.hold = t.Chance(35, "hold-token")
			}
			rds = append(rds, x)
		}
		s.Go("caller", func(tk *Task) {
			var later []func()
			defer func() {
				for i := len(later) - 1; i >= 0; i-- {
					later[i]()
				}
			}()
			for _, x := range rds {
				if x.set {
					tk.Begin("setlimit", x.v)
					h := &histOp{op: tk.curOp, in: pgIn{kind: 2, v: x.v}}
					hist = append(hist, h)
					sut.strat().SetLimit(x.v)
					tk.End(nil)
					continue
				}
				if x.add {
					tk.Begin("add-partition", "dyn")
					h := &histOp{op: tk.curOp, in: pgIn{kind: 3}}
					hist = append(hist, h)
					added := addDyn()
					tk.End(added)
					r.Probe("concurrent_add_partition")
					continue
				}
				b := binOf(x.key)
				id := nextTok
				nextTok++
				tk.Begin("acquire", x.key)
				h := &histOp{op: tk.curOp, in: pgIn{kind: 0, bin: b, tok: id}}
				hist = append(hist, h)
				tok, ok := sut.strat().TryAcquire(sut.ctx(x.key))
				tk.End(ok)
				if !ok {
					continue
				}
				rel := func() {
					tk.Begin("release", x.key)
					h2 := &histOp{op: tk.curOp, in: pgIn{kind: 1, bin: b, tok: id}}
					hist = append(hist, h2)
					tok.Release()
					tk.End(nil)
				}
				if x.hold {
					later = append(later, rel)
					continue
				}
				rel()
			}
		})
	}
	s.OnStable = func() {
		// bins sum to the total (predicate) / never exceed it, and equal the ledger when idle
		for _, tk := range s.tasks {
			if !tk.Idle() {
				return
			}
		}
		var busy int
		if !RootCall(func() { busy = sutBusy(sut) }) {
			return
		}
		if busy != 0 {
			s.Fail("busy-mismatch", sut.kind, "all tokens released but BusyCount is %d", busy)
		}
	}
	s.Run()
	r.VirtNs = s.Now()
	if s.Failed() != nil || s.Truncated {
		return
	}
	// everything has returned: every share must be the one the final total limit gives (overlapping SetLimit calls
	// must not leave the total from one and shares from the other)
	finalL := sutLimit(sut)
	for i, sp := range specs {
		var bl int
		var e error
		if sut.kind == "lookup" {
			bl, e = sut.lookup.BinLimit(sp.name)
		} else {
			bl, e = sut.pred.BinLimit(i)
		}
		if e != nil {
			continue
		}
		if w := share(finalL, sp.k); bl != w {
			r.Fail("share-mismatch", sut.kind+"/concurrent", "after all concurrent operations returned the total limit is %d but partition %s (fraction %d/32) has share %d, expected max(1, ceil(limit x fraction)) = %d", finalL, sp.name, sp.k, bl, w)
			return
		}
	}
	var ops []porcupine.Operation
	refused := 0
	for _, h := range hist {
		if h.op == nil || h.op.Call < 0 {
			continue
		}
		ret := int64(h.op.Ret)
		if h.op.Ret < 0 {
			ret = int64(s.Step + 2)
		}
		var out interface{}
		if h.in.kind == 0 {
			ok, _ := h.op.Out.(bool)
			out = ok
			if !ok {
				refused++
			}
		}
		if h.in.kind == 3 {
			added, _ := h.op.Out.(bool)
			out = added
		}
		ops = append(ops, porcupine.Operation{ClientId: h.op.Task, Input: h.in, Output: out, Call: int64(h.op.Call), Return: ret})
	}
	if refused > 0 {
		r.Nontrivial = true
		r.Probe("refused")
	}
	r.post = append(r.post, func() {
		switch porcupine.CheckOperationsTimeout(model, ops, 5*time.Second) {
		case porcupine.Ok:
			r.PorcOK++
		case porcupine.Unknown:
			r.PorcUnknown++
		case porcupine.Illegal:
			r.PorcIllegal++
			desc := ""
			for _, o := range ops {
				desc += fmt.Sprintf("\n    client %d [%d,%d] %+v -> %v", o.ClientId, o.Call, o.Return, o.Input, o.Output)
			}
			r.Fail("not-linearizable", sut.kind+"/concurrent", "concurrent history is not linearizable against the partition gate (L=%d, fractions k/32=%v):%s", g.L, ks, desc)
		}
	})
}
