package harness

import (
	"context"
	"math"
	"time"

	"github.com/platinummonkey/go-concurrency-limits/core"
	"github.com/platinummonkey/go-concurrency-limits/limit"
	"github.com/platinummonkey/go-concurrency-limits/limiter"
	"github.com/platinummonkey/go-concurrency-limits/strategy"
)

func init() {
	Register(&Prop{
		ID: "C09", Bubble: true, ArmLockProbes: true, Run: runC09, QuickRuns: 5000,
		ExpectedProbes: []string{"window_closed", "drop_inside_window_not_last"},
		Rule: "one run = (1) a DefaultLimiter (simple strategy, large limit) over a recording limit delegate on the virtual clock: a seeded sequence of acquire / sleep / complete(outcome) with several tokens outstanding, window size 10..14, window period 1 ms..2 s, threshold 0..1 ms, durations 0 / below / at / above the threshold, drops at every window position, ignored completions, idle gaps; or (2) a WindowedLimit driven directly with (startTime, rtt, in-flight, drop) incl. clock jumps; " +
			"oracle: a reference window model written from the statement predicts every call of the delegate (no missing, no extra call) and its exact arguments (min / mean rtt, max in-flight, drop flag iff some completion of that window was a drop); " +
			"non-trivial = at least two windows were closed and one of them contained a drop that was not its last completion; distinct = distinct choice tapes",
		Real:       []string{"limiter.DefaultLimiter", "limiter.DefaultListener", "limit.WindowedLimit", "measurements.ImmutableSampleWindow", "strategy.SimpleStrategy", "limiter.BlockingLimiter / DeadlineLimiter / QueueBlockingLimiter as pass-through wrappers (4 of 7 default-limiter runs)"},
		Stubs:      []string{"recording core.Limit delegate", "logger", "caller-written strategy wrapper whose tokens report their own count (25% of default-limiter runs)"},
		FaultKinds: []string{"F-latency", "F-drop", "F-outcome", "F-idle", "F-clock"},
		Assumptions: []string{"single driving goroutine on the synctest fake clock: measured durations equal the virtual sleeps exactly",
			"readiness rules: default limiter — more than windowSize successes in the window; windowed limit — the rule pinned by the existing suite (closing sample's in-flight exceeds windowSize)"},
	})
}

type winModel struct {
	min     int64
	sum     int64
	cnt     int
	maxF    int
	drop    bool
	next    int64
	dropPos []int // positions (within the window) of drops
	n       int   // completions folded into this window
}

func (w *winModel) reset() {
	w.min, w.sum, w.cnt, w.maxF, w.drop, w.dropPos, w.n = math.MaxInt64, 0, 0, 0, false, nil, 0
}

func runC09(r *Run) {
	if r.T.Intn(5, "part") < 3 {
		runC09Default(r)
	} else {
		runC09Windowed(r)
	}
}

func runC09Default(r *Run) {
	t := r.T
	ws := 10 + t.Intn(5, "window-size")
	minW := []time.Duration{ms, 10 * ms, 500 * ms, 2 * time.Second}[t.Intn(4, "min-window")]
	maxW := minW * time.Duration(1+t.Intn(3, "max-mult"))
	if t.Chance(8, "uncapped-max-window") {
		maxW = time.Duration(math.MaxInt64) // "no upper bound on the window"
	}
	thr := []time.Duration{0, 100 * time.Microsecond, ms}[t.Intn(3, "threshold")]
	rec := &recLimit{est: 1000}
	var strat core.Strategy = strategy.NewSimpleStrategy(1000)
	if t.Chance(25, "strategy-own-token-count") {
		// a caller-written strategy whose tokens report a count of its own (say, of one tenant): the window's
		// in-flight is the limiter's own count of outstanding requests, whatever the strategy's tokens say
		strat = ownCountStrategy{strat}
		r.Probe("strategy_tokens_report_other_count")
	}
	dl, err := limiter.NewDefaultLimiter(rec, minW.Nanoseconds(), maxW.Nanoseconds(), thr.Nanoseconds(), ws, strat, nopLogger{}, core.EmptyMetricRegistryInstance)
	if err != nil {
		r.Fail("harness", "build", "%v", err)
		return
	}
	// the completions may reach the limiter through one of the blocking wrappers (never blocking here: capacity 1000),
	// with contexts of their own that may be cancelled or expired by the time the request completes: what the
	// window records is the outcome the caller reported
	var front core.Limiter = dl
	wrap := []string{"", "", "", "blocking", "deadline", "lifo", "fifo"}[t.Intn(7, "wrapper")]
	switch wrap {
	case "blocking":
		front = limiter.NewBlockingLimiter(dl, []time.Duration{0, time.Hour}[t.Intn(2, "wrap-timeout")], nopLogger{})
	case "deadline":
		front = limiter.NewDeadlineLimiter(dl, time.Now().Add(1000*time.Hour), nopLogger{})
	case "lifo", "fifo":
		front = limiter.NewQueueBlockingLimiterFromConfig(dl, limiter.QueueLimiterConfig{Ordering: limiter.QueueOrdering(wrap), MaxBacklogSize: 5, MaxBacklogTimeout: time.Hour, BacklogEvictDoneCtx: t.Chance(50, "wrap-evict")})
	}
	if wrap != "" {
		r.Probe("completions_through_blocking_wrapper")
	}
	n := 30 + t.Intn(scale(170, 600), "ops")
	zeroDur := t.Chance(25, "allow-zero-durations")
	// slow mode: every completion is at least this old, so the window minimum is large and the
	// period is governed by 2 x min rtt (clamped by the maximum), not by the minimum window time
	slowFloor := []time.Duration{0, 0, minW/2 + 1, minW, 2 * minW}[t.Intn(5, "slow-floor")]
	r.Mixf("C09 default window-size=%d min=%v max=%v threshold=%v ops=%d zero-durations=%v slow-floor=%v", ws, minW, maxW, thr, n, zeroDur, slowFloor)
	type tok struct {
		l      core.Listener
		start  int64
		f      int
		cancel context.CancelFunc
	}
	var out []tok
	var m winModel
	m.reset()
	m.next = 0
	calls := 0
	windows, midDropWindows := 0, 0
	durs := []time.Duration{thr, thr + 1, thr * 2, ms, 3 * ms, 50 * time.Microsecond, 20 * ms, minW / 2, minW, maxW + 1, time.Nanosecond}
	burst, drainUntraced, aimAtPeriodEnd := 0, 0, false
	lastLate := int64(0) // how long after the end of its period the last window was closed
	// an outage: hundreds of requests in a row fail (255, 256, 257, 512 ... drops inside one window)
	stormLeft, extra := 0, 0
	if t.Chance(6, "drop-storm") {
		stormLeft = []int{255, 256, 257, 512, 300}[t.Intn(5, "storm-size")]
		extra = 2 * stormLeft
		r.Probe("hundreds_of_drops_in_one_window")
	}
	stormAt := t.Intn(n, "storm-at")
	for i := 0; i < n+extra && !r.Failed(); i++ {
		act := t.Pick([]int{4, 4, 5}, "act") // 0 sleep, 1 acquire, 2 complete
		storm := stormLeft > 0 && i >= stormAt
		if storm {
			act = 2
			if len(out) == 0 {
				act = 1
			}
		}
		if !aimAtPeriodEnd && m.cnt > ws && time.Now().UnixNano() < m.next && t.Chance(12, "aim-at-period-end-ready") {
			aimAtPeriodEnd = true
		}
		if aimAtPeriodEnd && len(out) > 0 {
			// a ready window exists; the next completion lands just before, exactly at or just after the end of the
			// period (or halfway): updated if and only if the period is over
			aimAtPeriodEnd = false
			if rem := m.next - time.Now().UnixNano(); rem > 2 {
				// also: well after the end (a late close), and where the period would end had it started at the
				// previous period's end instead of at the (late) completion that closed the previous window
				off := []int64{-1, 0, 1, -rem / 2, -rem + 1, minW.Nanoseconds() / 3, -lastLate + 1, -lastLate / 2, -lastLate}[t.Intn(9, "period-end-offset")]
				if rem+off < 0 {
					off = -1
				}
				time.Sleep(time.Duration(rem + off))
				r.Probe("completion_aimed_at_period_end")
			}
			act = 2
		} else if drainUntraced > 0 && len(out) > 0 {
			act = 2
		} else if burst > 0 {
			// right after a window closed: a quick series of successes so that a ready window exists
			// early in the next period (the algorithm must not be updated again before the period ends)
			burst--
			act = 1 + burst%2
			if burst == 0 && t.Chance(60, "aim-at-period-end") {
				aimAtPeriodEnd = true
			}
		}
		if len(out) == 0 && act == 2 {
			act = 1
		}
		if len(out) >= 20 && act == 1 {
			act = 2
		}
		switch act {
		case 0:
			d := durs[t.Intn(len(durs), "sleep")]
			if d == 0 && !zeroDur {
				d = time.Nanosecond
			}
			if d > 0 {
				time.Sleep(d)
			}
			if d > maxW {
				r.Fault("F-idle")
			}
		case 1:
			actx, cancel := bg, context.CancelFunc(nil)
			if wrap != "" && t.Chance(40, "own-context") {
				if t.Chance(30, "own-deadline") {
					actx, cancel = context.WithTimeout(bg, []time.Duration{ms, 20 * ms, time.Second}[t.Intn(3, "own-timeout")])
				} else {
					actx, cancel = context.WithTimeout(bg, time.Hour) // cancelled by the caller long before that
				}
			}
			if wrap != "" && cancel == nil {
				// never needed on a limiter with room; bounds the call if a wrapper should block
				actx, cancel = context.WithTimeout(bg, time.Hour)
			}
			l, ok := front.Acquire(actx)
			if !ok {
				r.Fail("refused-with-room", "default", "acquire refused at %d of 1000 (wrapper %q)", len(out), wrap)
				return
			}
			out = append(out, tok{l: l, start: time.Now().UnixNano(), f: len(out) + 1, cancel: cancel})
		case 2:
			k := t.Intn(len(out), "which")
			tk := out[k]
			out = append(out[:k], out[k+1:]...)
			o := t.Pick([]int{7, 1, 2}, "outcome")
			if drainUntraced > 0 {
				drainUntraced--
				o = 1
			}
			if storm {
				stormLeft--
				o = 2
			}
			if age := time.Now().UnixNano() - tk.start; slowFloor > 0 && age < int64(slowFloor) {
				time.Sleep(slowFloor - time.Duration(age))
			}
			now := time.Now().UnixNano()
			rtt := now - tk.start
			if rtt == 0 && !zeroDur {
				time.Sleep(time.Nanosecond)
				now++
				rtt = 1
			}
			if rtt == 0 {
				r.Fault("F-latency:rtt0")
			}
			if tk.cancel != nil && t.Chance(60, "cancel-before-completion") {
				tk.cancel() // the caller walked away; the request's outcome is still what it reports
				r.Fault("F-cancel:before-completion")
			}
			Complete(tk.l, o)
			if tk.cancel != nil {
				tk.cancel()
			}
			r.Fault("outcome:" + outcomeNames[o])
			// reference model
			folded := false
			switch o {
			case 0:
				if rtt >= thr.Nanoseconds() {
					if rtt < m.min {
						m.min = rtt
					}
					m.sum += rtt
					m.cnt++
					if tk.f > m.maxF {
						m.maxF = tk.f
					}
					m.n++
					folded = true
				}
			case 2:
				if tk.f > m.maxF {
					m.maxF = tk.f
				}
				m.drop = true
				m.dropPos = append(m.dropPos, m.n)
				m.n++
				folded = true
			}
			if r.Verbose {
				r.Notef("op %d complete %s rtt=%d inflight=%d t=%d -> model window{min=%d cnt=%d maxF=%d drop=%v} next=%d", i, outcomeNames[o], rtt, tk.f, now, m.min, m.cnt, m.maxF, m.drop, m.next)
			}
			expectCall := folded && now > m.next && m.min < math.MaxInt64 && m.cnt > ws
			if expectCall {
				if len(rec.got) != calls+1 {
					key := "default"
					if m.min == 0 {
						key = "default/rtt0-min-lost"
					}
					r.Fail("window-update-missing", key, "completion %d (%s, rtt %d) at t=%d closes a ready window (successes=%d > %d, next update %d) but the limit algorithm was not updated", i, outcomeNames[o], rtt, now, m.cnt, ws, m.next)
					return
				}
				got := rec.got[calls]
				calls++
				want := Sample{Start: got.Start, RTT: m.min, InFlight: m.maxF, Drop: m.drop}
				if got != want {
					key := "default/args"
					if got.Drop != want.Drop {
						key = "default/drop-flag"
					} else if got.RTT != want.RTT {
						key = "default/rtt"
					} else if got.InFlight != want.InFlight {
						key = "default/inflight"
					}
					if m.min == 0 && got.RTT != 0 {
						key = "default/rtt0-min-lost"
					}
					r.Fail("window-aggregate-wrong", key, "window closed by completion %d: the algorithm received (rtt=%d inflight=%d drop=%v), the fold of the window is (min rtt=%d max inflight=%d drop=%v; drops at positions %v of %d)", i, got.RTT, got.InFlight, got.Drop, want.RTT, want.InFlight, want.Drop, m.dropPos, m.n)
					return
				}
				windows++
				for _, p := range m.dropPos {
					if p != m.n-1 {
						midDropWindows++
						r.Probe("drop_inside_window_not_last")
						break
					}
				}
				w := 2 * m.min
				if w < minW.Nanoseconds() {
					w = minW.Nanoseconds()
				}
				if w > maxW.Nanoseconds() {
					w = maxW.Nanoseconds()
				}
				lastLate = now - m.next
				m.next = now + w
				m.reset()
				if t.Chance(40, "burst-after-close") {
					burst = 2*ws + 4
				} else if len(out) >= 3 && t.Chance(35, "drain-untraced-after-close") {
					// everything that was outstanding when the window closed now completes without a trace (ignored, or
					// faster than the threshold): the next window knows only the requests that complete into it
					drainUntraced = len(out)
					r.Probe("outstanding_at_close_complete_untraced")
				}
			} else if len(rec.got) != calls {
				key := "default/extra"
				if m.min == math.MaxInt64 && m.cnt > 0 {
					key = "default/rtt0-min-lost"
				}
				r.Fail("window-update-unexpected", key, "completion %d (%s, rtt %d) at t=%d must not update the algorithm (folded=%v, successes=%d, window size %d, next update %d) but it received %v", i, outcomeNames[o], rtt, now, folded, m.cnt, ws, m.next, rec.got[len(rec.got)-1])
				return
			}
		}
	}
	for _, tk := range out {
		tk.l.OnIgnore()
		if tk.cancel != nil {
			tk.cancel()
		}
	}
	if windows >= 2 && midDropWindows > 0 {
		r.Nontrivial = true
	}
	if windows > 0 {
		r.Probe("window_closed")
	}
	r.VirtNs = int64(time.Since(time.Date(2000, 1, 1, 0, 0, 0, 0, time.UTC)))
}

func runC09Windowed(r *Run) {
	t := r.T
	ws := int32(10 + t.Intn(5, "window-size"))
	minW := []int64{1e8, 5e8, 1e9}[t.Intn(3, "min-window")]
	maxW := minW * int64(1+t.Intn(3, "max-mult"))
	if t.Chance(8, "uncapped-max-window") {
		maxW = math.MaxInt64
	}
	thr := []int64{0, 1e5, 1e6}[t.Intn(3, "threshold")]
	rec := &recLimit{est: 50}
	wl, err := limit.NewWindowedLimit("w", minW, maxW, ws, thr, rec, nil)
	if err != nil {
		r.Fail("harness", "build", "%v", err)
		return
	}
	n := 30 + t.Intn(170, "samples")
	r.Mixf("C09 windowed window-size=%d min=%d max=%d threshold=%d samples=%d", ws, minW, maxW, thr, n)
	var m winModel
	m.reset()
	clock := int64(1e12)
	slowRTTs := t.Chance(25, "slow-rtts")
	calls, windows, midDropWindows := 0, 0, 0
	for i := 0; i < n; i++ {
		clock += []int64{1e6, 1e8, 1, 3e8, 2e9}[t.Intn(5, "clock-step")]
		if t.Chance(4, "clock-back") {
			clock -= 1e9
			r.Fault("F-clock:back")
		}
		rtt := []int64{thr, thr + 1, thr / 2, 1e6, 2e6 + int64(t.Intn(1000, "j")), 5e7, 1, 3e5}[t.Intn(8, "rtt")]
		if slowRTTs {
			// a slow backend: twice the smallest RTT of a window exceeds the minimum window time, so the period is
			// governed by the RTTs (up to the maximum window time)
			rtt = []int64{minW, minW*3/4 + 1, 2 * minW, maxW, minW/2 + 1}[t.Intn(5, "rtt-slow")]
		}
		if rtt < 1 {
			rtt = 1
		}
		f := []int{int(ws) + 1, int(ws), 3, int(ws) + 5, 40}[t.Intn(5, "inflight")]
		drop := t.Chance(20, "drop")
		wl.OnSample(clock, rtt, f, drop)
		end := clock + rtt
		folded := rtt >= thr
		if folded {
			if drop {
				m.drop = true
				m.dropPos = append(m.dropPos, m.n)
			} else {
				if rtt < m.min {
					m.min = rtt
				}
				m.sum += rtt
				m.cnt++
			}
			if f > m.maxF {
				m.maxF = f
			}
			m.n++
		}
		expect := folded && end > m.next && int32(f) > ws
		if r.Verbose {
			r.Notef("sample %d start=%d rtt=%d inflight=%d drop=%v -> model{min=%d sum=%d cnt=%d maxF=%d drop=%v next=%d} expect-call=%v", i, clock, rtt, f, drop, m.min, m.sum, m.cnt, m.maxF, m.drop, m.next, expect)
		}
		if expect {
			if len(rec.got) != calls+1 {
				r.Fail("window-update-missing", "windowed", "sample %d closes a ready window but the delegate was not updated", i)
				return
			}
			got := rec.got[calls]
			calls++
			avg := int64(0)
			if m.cnt > 0 {
				avg = m.sum / int64(m.cnt)
			}
			if got.Drop != m.drop {
				r.Fail("window-aggregate-wrong", "windowed/drop-flag", "window closed by sample %d (drop=%v): the delegate received drop=%v but the window contained drops at positions %v of %d completions", i, drop, got.Drop, m.dropPos, m.n)
				return
			}
			if got.InFlight != m.maxF || (m.cnt > 0 && got.RTT != avg) {
				r.Fail("window-aggregate-wrong", "windowed/args", "window closed by sample %d: delegate received (rtt=%d inflight=%d), the fold is (mean rtt=%d over %d successes, max inflight=%d)", i, got.RTT, got.InFlight, avg, m.cnt, m.maxF)
				return
			}
			windows++
			for _, p := range m.dropPos {
				if p != m.n-1 {
					midDropWindows++
					r.Probe("drop_inside_window_not_last")
					break
				}
			}
			w := int64(0)
			if m.min < math.MaxInt64 {
				w = 2 * m.min
			}
			if w < minW {
				w = minW
			}
			if w > maxW {
				w = maxW
			}
			m.next = end + w
			m.reset()
		} else if len(rec.got) != calls {
			r.Fail("window-update-unexpected", "windowed", "sample %d (rtt=%d inflight=%d drop=%v end=%d, next update %d, folded=%v) must not update the delegate but it received %v", i, rtt, f, drop, end, m.next, folded, rec.got[len(rec.got)-1])
			return
		}
	}
	if windows >= 2 && midDropWindows > 0 {
		r.Nontrivial = true
	}
	if windows > 0 {
		r.Probe("window_closed")
	}
}

// ownCountStrategy: a strategy as a user of the library may write it; admission is the wrapped strategy's,
// the tokens report a number of their own.
type ownCountStrategy struct{ core.Strategy }

type ownCountToken struct{ core.StrategyToken }

func (k ownCountToken) InFlightCount() int { return 424242 }

func (s ownCountStrategy) TryAcquire(ctx context.Context) (core.StrategyToken, bool) {
	tk, ok := s.Strategy.TryAcquire(ctx)
	if tk == nil {
		return tk, ok
	}
	return ownCountToken{tk}, ok
}
