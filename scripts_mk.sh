#!/bin/bash
# dev helper: build scratch copy + harness test binary into $1 (default /tmp/w1)
export GOFLAGS=-mod=mod GOPROXY=off GOSUMDB=off GOTOOLCHAIN=local
W=${1:-/tmp/w1}; SRC=${2:-/repo}; shift; shift
rm -rf $W; mkdir -p $W
cd /verif && go1.26.8 build -o bin/verif-inst ./cmd/verif-inst || exit 2
./bin/verif-inst -q -src $SRC -dst $W/repo || exit 2
cp -r harness $W/harness
cat > $W/harness/go.mod <<EOM
module verifharness

go 1.26.8

require (
	github.com/platinummonkey/go-concurrency-limits v0.0.0
	github.com/anishathalye/porcupine v1.3.0
)

replace github.com/platinummonkey/go-concurrency-limits => ../repo
EOM
cp $SRC/go.sum $W/harness/go.sum
cd $W/harness && go1.26.8 test -trimpath "$@" -c -o ../h.test . 
