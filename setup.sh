#!/bin/bash
# Builds the verification framework offline from /verif sources and warms the Go build cache.
set -e
cd "$(dirname "$0")"
export GOFLAGS=-mod=mod GOPROXY=off GOSUMDB=off GOTOOLCHAIN=local CGO_ENABLED=1
mkdir -p bin evidence replays .work
go1.26.8 build -o bin/verif-inst ./cmd/verif-inst
go1.26.8 build -o bin/check ./cmd/check
# warm the build cache (std + dependencies + harness), plain and -race, against the current tree
W=.work/setup-$$
rm -rf "$W"; mkdir -p "$W"
./bin/verif-inst -q -src "${VERIF_REPO:-/repo}" -dst "$W/repo"
mkdir -p "$W/harness"; cp harness/*.go "$W/harness/"
cat > "$W/harness/go.mod" <<EOM
module verifharness

go 1.26.8

require (
	github.com/platinummonkey/go-concurrency-limits v0.0.0
	github.com/anishathalye/porcupine v1.3.0
)

replace github.com/platinummonkey/go-concurrency-limits => ../repo
EOM
cat "${VERIF_REPO:-/repo}/go.sum" harness/go.sum.extra > "$W/harness/go.sum" 2>/dev/null || cp "${VERIF_REPO:-/repo}/go.sum" "$W/harness/go.sum"
( cd "$W/harness" && go1.26.8 test -trimpath -c -o ../h.test . && go1.26.8 test -trimpath -race -c -o ../hr.test . ) || { echo "setup: warm-up build failed" >&2; rm -rf "$W"; exit 2; }
rm -rf "$W"
echo "setup ok"
