module verif

go 1.24
